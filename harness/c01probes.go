package main

import (
	"encoding/json"
	"fmt"

	"github.com/oapi-codegen/oapi-codegen/v2/pkg/codegen"
)

// Probes: one small fixed document per defect of the unchanged tree that the random family steers around.
// A probe that fails the gate is reported under the signature probe/<name> (listed in known-findings.jsonl);
// a probe that passes is silent, so a repaired defect simply disappears from the output.

type c01Probe struct {
	Name    string
	Targets []string // target names from c01Targets
	Doc     string
	Tune    func(*codegen.Configuration)
}

func op(extra string) string {
	return `{"openapi":"3.0.3","info":{"title":"p","version":"1"},` + extra + `}`
}

var c01Probes = []c01Probe{
	{Name: "P1_strict_text_response_with_default_status", Targets: []string{"echo+strict", "chi+strict", "gin+strict", "gorilla+strict", "stdhttp+strict", "iris+strict"},
		Doc: op(`"paths":{"/a":{"get":{"responses":{"default":{"description":"d","content":{"text/plain":{"schema":{"type":"string"}}}}}}}}`)},
	{Name: "P1_strict_text_response_with_headers", Targets: []string{"echo+strict", "chi+strict", "gin+strict", "gorilla+strict", "stdhttp+strict", "iris+strict"},
		Doc: op(`"paths":{"/a":{"get":{"responses":{"200":{"description":"d","headers":{"X-Rate":{"schema":{"type":"integer"}}},"content":{"text/plain":{"schema":{"type":"string"}}}}}}}}`)},
	{Name: "P2_fiber_strict_text_response", Targets: []string{"fiber+strict"},
		Doc: op(`"paths":{"/a":{"get":{"responses":{"200":{"description":"d","content":{"text/plain":{"schema":{"$ref":"#/components/schemas/W"}}}}}}}},"components":{"schemas":{"W":{"type":"object","properties":{"a":{"type":"string"}}}}}`)},
	{Name: "P3_enum_inside_inline_response_object", Targets: []string{"client", "echo+strict"},
		Doc: op(`"paths":{"/a":{"get":{"responses":{"200":{"description":"d","content":{"application/json":{"schema":{"type":"object","properties":{"state":{"type":"string","enum":["on","off"]}}}}}}}}}}`)},
	{Name: "P3_nested_object_inside_reusable_response", Targets: []string{"models", "chi"},
		Doc: op(`"paths":{"/a":{"get":{"responses":{"200":{"$ref":"#/components/responses/R"}}}}},"components":{"responses":{"R":{"description":"d","content":{"application/json":{"schema":{"type":"object","properties":{"tags":{"type":"array","items":{"type":"string","enum":["x","y"]}}}}}}}}}`)},
	{Name: "P4_yaml_reusable_response_in_client", Targets: []string{"client"},
		Doc: op(`"paths":{"/a":{"get":{"responses":{"200":{"$ref":"#/components/responses/R"}}}}},"components":{"responses":{"R":{"description":"d","content":{"application/yaml":{"schema":{"type":"integer"}}}}}}`)},
	{Name: "P5_json_content_parameter_with_inline_object", Targets: []string{"echo", "chi", "gin", "gorilla", "stdhttp"},
		Doc: op(`"paths":{"/a":{"get":{"parameters":[{"name":"filter","in":"query","content":{"application/json":{"schema":{"type":"object","properties":{"a":{"type":"string"}},"additionalProperties":{"type":"integer"}}}}}],"responses":{"204":{"description":"d"}}}}}`)},
	{Name: "P5_json_content_query_parameter", Targets: []string{"iris", "fiber"},
		Doc: op(`"paths":{"/a":{"get":{"parameters":[{"name":"filter","in":"query","content":{"application/json":{"schema":{"$ref":"#/components/schemas/F"}}}}],"responses":{"204":{"description":"d"}}}}},"components":{"schemas":{"F":{"type":"object","properties":{"a":{"type":"string"}}}}}`)},
	{Name: "P6_skip_optional_pointer_with_additional_properties", Targets: []string{"models"},
		Doc:  op(`"paths":{},"components":{"schemas":{"S":{"type":"object","additionalProperties":true,"properties":{"name":{"type":"string","x-go-type-skip-optional-pointer":true}}}}}`),
		Tune: func(c *codegen.Configuration) { c.OutputOptions.SkipPrune = true }},
	{Name: "P7_pass_through_path_parameter_leaves_err_unused", Targets: []string{"chi", "gin", "gorilla", "stdhttp", "fiber", "iris"},
		Doc: op(`"paths":{"/a/{p}":{"get":{"parameters":[{"name":"p","in":"path","required":true,"content":{"text/plain":{"schema":{"type":"string"}}}}],"responses":{"204":{"description":"d"}}}}}`)},
	{Name: "P7_pass_through_query_parameter_alone_leaves_err_unused", Targets: []string{"chi", "gin", "gorilla", "stdhttp", "fiber", "iris"},
		Doc: op(`"paths":{"/a":{"get":{"parameters":[{"name":"p","in":"query","content":{"text/plain":{"schema":{"type":"string"}}}}],"responses":{"204":{"description":"d"}}}}}`)},
	{Name: "P7_pass_through_header_parameter_alone_leaves_err_unused", Targets: []string{"chi", "gin", "gorilla", "stdhttp", "fiber", "iris"},
		Doc: op(`"paths":{"/a":{"get":{"parameters":[{"name":"X-P","in":"header","content":{"text/plain":{"schema":{"type":"string"}}}}],"responses":{"204":{"description":"d"}}}}}`)},
	{Name: "P7_pass_through_cookie_parameter_alone_leaves_err_unused", Targets: []string{"fiber"},
		Doc: op(`"paths":{"/a":{"get":{"parameters":[{"name":"c","in":"cookie","content":{"text/plain":{"schema":{"type":"string"}}}}],"responses":{"204":{"description":"d"}}}}}`)},
	{Name: "P7_iris_cookie_only_operation_leaves_err_unused", Targets: []string{"iris"},
		Doc: op(`"paths":{"/a":{"get":{"parameters":[{"name":"c","in":"cookie","schema":{"type":"string"}}],"responses":{"204":{"description":"d"}}}}}`)},
	{Name: "P8_schema_named_Client", Targets: []string{"client"},
		Doc: op(`"paths":{"/a":{"get":{"responses":{"200":{"description":"d","content":{"application/json":{"schema":{"$ref":"#/components/schemas/Client"}}}}}}}},"components":{"schemas":{"Client":{"type":"object","properties":{"id":{"type":"string"}}}}}`)},
	{Name: "P9_path_parameter_named_like_a_predeclared_identifier", Targets: []string{"echo", "chi", "gin", "client"},
		Doc: op(`"paths":{"/a/{string}/{nil}":{"get":{"parameters":[{"name":"string","in":"path","required":true,"schema":{"type":"integer"}},{"name":"nil","in":"path","required":true,"schema":{"type":"string"}}],"responses":{"204":{"description":"d"}}}}}`)},
	{Name: "P9_path_parameter_named_like_an_imported_package", Targets: []string{"chi+strict", "stdhttp+strict"},
		Doc: op(`"paths":{"/a/{json}":{"post":{"parameters":[{"name":"json","in":"path","required":true,"schema":{"type":"string"}}],"requestBody":{"content":{"application/json":{"schema":{"type":"object","properties":{"a":{"type":"string"}}}}}},"responses":{"204":{"description":"d"}}}}}`)},
	{Name: "P9_path_parameter_named_like_a_wrapper_variable", Targets: []string{"chi", "gorilla", "stdhttp", "client"},
		Doc: op(`"paths":{"/a/{r}/{server}":{"get":{"parameters":[{"name":"r","in":"path","required":true,"schema":{"type":"boolean"}},{"name":"server","in":"path","required":true,"schema":{"type":"string"}}],"responses":{"204":{"description":"d"}}}}}`)},
	{Name: "P10_reusable_request_body_with_two_json_media_types", Targets: []string{"models"},
		Doc:  op(`"paths":{},"components":{"requestBodies":{"B":{"content":{"application/json":{"schema":{"type":"boolean"}},"application/vnd.api+json":{"schema":{"type":"string"}}}}}}`),
		Tune: func(c *codegen.Configuration) { c.OutputOptions.SkipPrune = true }},
	{Name: "P11_nested_object_in_schema_with_leading_digit", Targets: []string{"models"},
		Doc: op(`"paths":{},"components":{"schemas":{"1st":{"type":"object","properties":{"inner":{"type":"object","properties":{"a":{"type":"string"}},"additionalProperties":{"type":"boolean"}}}}}}`),
		Tune: func(c *codegen.Configuration) {
			c.OutputOptions.SkipPrune = true
			c.Compatibility.DisableFlattenAdditionalProperties = true
		}},
	{Name: "P12_x_go_name_of_referenced_schema_names_the_referring_fields", Targets: []string{"models"},
		Doc:  op(`"paths":{},"components":{"schemas":{"Holder":{"type":"object","properties":{"first":{"$ref":"#/components/schemas/Item"},"second":{"$ref":"#/components/schemas/Item"}}},"Item":{"type":"array","items":{"type":"string"},"x-go-name":"RenamedItem"}}}`),
		Tune: func(c *codegen.Configuration) { c.OutputOptions.SkipPrune = true }},
	{Name: "P13_path_parameter_starting_with_a_caseless_letter", Targets: []string{"echo+strict", "fiber+strict"},
		Doc: op(`"paths":{"/a/{名前name}":{"get":{"parameters":[{"name":"名前name","in":"path","required":true,"schema":{"type":"string"}}],"responses":{"204":{"description":"d"}}}}}`)},
	{Name: "P14_two_bodies_outside_json_form_multipart_text_in_strict_mode", Targets: []string{"echo+strict", "gin+strict"},
		Doc: op(`"paths":{"/a":{"post":{"requestBody":{"content":{"application/octet-stream":{"schema":{"type":"string","format":"binary"}},"application/pdf":{"schema":{"type":"string","format":"binary"}}}},"responses":{"204":{"description":"d"}}}}}`)},
	{Name: "P15_two_yaml_media_types_in_one_response_in_client", Targets: []string{"client"},
		Doc: op(`"paths":{"/a":{"get":{"responses":{"200":{"description":"d","content":{"application/yaml":{"schema":{"type":"integer"}},"text/yaml":{"schema":{"type":"string"}}}}}}}}`)},
	{Name: "P16_property_name_with_backtick", Targets: []string{"models"},
		Doc:  op(`"paths":{},"components":{"schemas":{"S":{"type":"object","properties":{"back` + "`" + `tick":{"type":"string"}}}}}`),
		Tune: func(c *codegen.Configuration) { c.OutputOptions.SkipPrune = true }},
	{Name: "P17_same_parameter_name_in_two_locations", Targets: []string{"echo", "chi"},
		Doc: op(`"paths":{"/a":{"get":{"parameters":[{"name":"trace","in":"query","schema":{"type":"string"}},{"name":"trace","in":"header","schema":{"type":"integer"}}],"responses":{"204":{"description":"d"}}}}}`)},
	{Name: "P18_allof_members_with_property_names_that_normalise_alike", Targets: []string{"models"},
		Doc:  op(`"paths":{},"components":{"schemas":{"A":{"type":"object","properties":{"foo-bar":{"type":"string"}}},"B":{"allOf":[{"$ref":"#/components/schemas/A"},{"type":"object","properties":{"foo_bar":{"type":"integer"}}}]}}}`),
		Tune: func(c *codegen.Configuration) { c.OutputOptions.SkipPrune = true }},
	{Name: "P20_map_of_map_of_map_without_flattening", Targets: []string{"models"},
		Doc: op(`"paths":{},"components":{"schemas":{"M":{"type":"object","additionalProperties":{"type":"object","additionalProperties":{"type":"object","additionalProperties":{"type":"string"}}}}}}`),
		Tune: func(c *codegen.Configuration) {
			c.OutputOptions.SkipPrune = true
			c.Compatibility.DisableFlattenAdditionalProperties = true
		}},
	{Name: "P21_property_named_item_in_array_items_without_flattening", Targets: []string{"models"},
		Doc: op(`"paths":{},"components":{"schemas":{"time":{"type":"array","items":{"type":"object","additionalProperties":{"type":"string"},"properties":{"item":{"type":"object","additionalProperties":{"type":"string"}}}}}}}`),
		Tune: func(c *codegen.Configuration) {
			c.OutputOptions.SkipPrune = true
			c.Compatibility.DisableFlattenAdditionalProperties = true
		}},
	{Name: "P19_skip_fmt_output_keeps_every_import", Targets: []string{"models"},
		Doc: op(`"paths":{},"components":{"schemas":{"S":{"type":"string"}}}`),
		Tune: func(c *codegen.Configuration) {
			c.OutputOptions.SkipPrune = true
			c.OutputOptions.SkipFmt = true
			c.PackageName = "rawskipfmt"
		}},
}

func runC01Probes(r *Report, ck *c01Checker) {
	targets := map[string]c01Target{}
	for _, t := range c01Targets() {
		targets[t.Name] = t
	}
	for _, p := range c01Probes {
		for _, tn := range p.Targets {
			cfg := codegen.Configuration{PackageName: "gen", Generate: targets[tn].Gen}
			if p.Tune != nil {
				p.Tune(&cfg)
			}
			var doc map[string]any
			must(json.Unmarshal([]byte(p.Doc), &doc))
			raw := cfg.PackageName == "rawskipfmt"
			if raw {
				cfg.PackageName = "gen"
			}
			var res gateResult
			if raw {
				res = ck.gateRawSkipFmt(doc, cfg)
			} else {
				res = ck.gateJSON(doc, cfg)
			}
			r.Count("probe/"+p.Name+"@"+tn, true)
			r.Dist["family=probes"]++
			r.Dist["probe_stage="+res.Stage]++
			if res.Stage == "ok" {
				continue
			}
			r.Violate("probe/"+p.Name, fmt.Sprintf("%s @ %s: %s: %s", p.Name, tn, res.Stage, trunc(lastLine(res.Msg), 300)), map[string]any{"document": doc, "configuration": cfg, "at": res.Snippet, "diags": res.Diags})
		}
	}
}

func lastLine(s string) string {
	if len(s) > 2000 {
		s = s[len(s)-2000:]
	}
	for i := len(s) - 1; i >= 0; i-- {
		if s[i] == '\n' && i < len(s)-1 {
			return s[i+1:]
		}
	}
	return s
}
