package main

import (
	"encoding/json"
	"fmt"
	"math/rand"
	"net/url"
	"strconv"
	"strings"
	"verif/harness/gendoc"
)

// corruptValue returns malformed wire texts for the cell's parameter (single-string form or
// query pairs), each with a label.
func corruptions(c pcell) [][2]string {
	var out [][2]string
	prefix := ""
	switch c.effStyle() {
	case "label":
		prefix = "."
	case "matrix":
		prefix = ";" + c.Name + "="
	}
	switch c.Shape {
	case "int":
		out = append(out, [2]string{"wrong-type", prefix + "abc"}, [2]string{"overflow", prefix + "99999999999"}, [2]string{"float-for-int", prefix + "1.5"})
	case "int64":
		out = append(out, [2]string{"wrong-type", prefix + "x1"}, [2]string{"overflow", prefix + "9223372036854775808"})
	case "float":
		out = append(out, [2]string{"wrong-type", prefix + "1.2.3"})
	case "bool":
		out = append(out, [2]string{"wrong-type", prefix + "maybe"})
	case "date":
		out = append(out, [2]string{"bad-date", prefix + "2020-13-45"}, [2]string{"bad-date", prefix + "yesterday"})
	case "datetime":
		out = append(out, [2]string{"bad-datetime", prefix + "2020-01-02 03:04"})
	case "uuid":
		out = append(out, [2]string{"bad-uuid", prefix + "123e4567-zzzz"})
	case "arr:int":
		if c.Loc != "query" || !c.effExplode() {
			out = append(out, [2]string{"wrong-element-type", prefix + "1,x,3"})
		}
	}
	if c.Loc == "header" && c.Kind == "styled" {
		switch c.Shape {
		case "int", "int64", "float", "bool", "date", "datetime", "uuid":
			// the header field is there and its value is empty: not a number, not a date (and not "absent")
			out = append(out, [2]string{"empty-header-value", ""})
		}
	}
	if c.Kind == "json" {
		out = append(out, [2]string{"malformed-json", "{\"firstName\":"}, [2]string{"json-wrong-type", "{\"firstName\":5,\"role\":[]}"},
			// a complete value followed by more text: one value is not the whole parameter
			[2]string{"json-trailing-text", "{\"firstName\":\"a\",\"role\":\"b\"}]]x"}, [2]string{"json-two-values", "{\"firstName\":\"a\",\"role\":\"b\"}{\"firstName\":\"c\",\"role\":\"d\"}"},
			[2]string{"json-trailing-brace", "{\"firstName\":\"a\",\"role\":\"b\"}}"})
	}
	return out
}

func runC06(r *Report, rng *rand.Rand, thorough bool) {
	// the wrapper templates as terms (Gen/Wrappers.v): the model's render against the real template engine
	nT := 6
	if thorough {
		nT = 60
	}
	runTemplateCorrespondence(r, rng, nT)
	lab, cells, err := buildParamsLab()
	if err != nil {
		r.Violate("lab_build_failed", err.Error(), nil)
		return
	}
	var scenarios []map[string]any
	type meta struct {
		fw, kind string
		cell     pcell
		wantOK   bool
		errh     bool
	}
	metas := map[string]meta{}
	brokenPkg := map[string]bool{}
	add := func(fw string, c pcell, kind string, wantOK bool, req map[string]any) {
		for _, errh := range []bool{false, true} {
			if !thorough && errh && rng.Intn(3) != 0 {
				continue
			}
			id := fmt.Sprintf("%s/%s/%s/%d/%v", cellPkg(fw, c), c.Op, kind, len(scenarios), errh)
			scenarios = append(scenarios, map[string]any{"id": id, "pkg": cellPkg(fw, c), "opts": map[string]any{"short_circuit": -1, "strict_short_circuit": -1, "error_handler": errh}, "req": req})
			metas[id] = meta{fw, kind, c, wantOK, errh}
		}
	}
	mkReq := func(c pcell, text string, present bool) map[string]any {
		req := map[string]any{"method": "GET", "target": "/" + c.Op}
		if !present {
			return req
		}
		switch c.Loc {
		case "path":
			req["target"] = "/" + c.Op + "/" + url.PathEscape(text)
		case "query":
			req["target"] = "/" + c.Op + "?" + url.QueryEscape(c.Name) + "=" + url.QueryEscape(text)
		case "header":
			req["header"] = map[string][]string{c.Name: {text}}
		case "cookie":
			if c.Kind == "json" {
				text = url.QueryEscape(text)
			}
			req["header"] = map[string][]string{"Cookie": {c.Name + "=" + text}}
		}
		return req
	}
	for _, loc := range paramLocs {
		for _, fw := range Frameworks {
			for _, c := range cells[loc] {
				if st := lab.Status[cellPkg(fw, c)]; !st.OK {
					// cells that cannot be exercised are a result, not a gap to pass over in silence
					if name := cellPkg(fw, c); !brokenPkg[name] {
						brokenPkg[name] = true
						r.Violate("lab_package_broken:"+name, fmt.Sprintf("package %s does not build: generate error %q, compile error %q", name, st.GenerateError, trunc(st.CompileError, 400)), map[string]any{"framework": fw, "location": loc})
					}
					continue
				}
				// present and well-formed (serialised by the OAS table, values free of characters that need escaping): accepted
				// (objects in the query string are left to C05, where the pinned runtime's deviations on them are recorded)
				if c.Kind == "styled" && !(c.Loc == "query" && c.Shape == "obj") {
					forcedClass = "alnum"
					v := genValue(rng, c)
					forcedClass = ""
					for len(v.Atoms) == 1 && strings.HasPrefix(c.Shape, "arr:") { // arrays with at least two elements
						forcedClass = "alnum"
						v = genValue(rng, c)
						forcedClass = ""
					}
					plain := true
					for _, a := range append(append([]string{}, v.Atoms...), func() []string {
						var l []string
						for _, m := range v.Obj {
							l = append(l, m[1])
						}
						return l
					}()...) {
						for _, ch := range a {
							if !(ch >= '0' && ch <= '9' || ch >= 'a' && ch <= 'z' || ch >= 'A' && ch <= 'Z' || ch == '-' || ch == '.') {
								plain = false
							}
						}
					}
					if plain {
						single, pairs := tableWire(c, &v)
						req := mkReq(c, single, true)
						if c.Loc == "query" {
							q := url.Values{}
							for _, pr := range pairs {
								q.Add(pr[0], pr[1])
							}
							req = map[string]any{"method": "GET", "target": "/" + c.Op + "?" + q.Encode()}
						}
						add(fw, c, "well-formed", true, req)
						r.Dist["well_formed_present/"+c.Loc]++
					}
				}
				// missing parameter
				if c.Loc != "path" {
					add(fw, c, "missing", !c.Required, mkReq(c, "", false))
				}
				for _, cor := range corruptions(c) {
					add(fw, c, cor[0], false, mkReq(c, cor[1], true))
				}
				// a query key sent several times: every occurrence counts (an exploded array whose FIRST element is malformed;
				// a single-valued parameter sent twice, the first time malformed)
				if c.Loc == "query" && c.Kind == "styled" && (c.effStyle() == "form") {
					q := url.QueryEscape(c.Name)
					if c.Shape == "arr:int" && c.effExplode() {
						add(fw, c, "first-of-repeated-malformed", false, map[string]any{"method": "GET", "target": "/" + c.Op + "?" + q + "=abc&" + q + "=2"})
					}
					if c.Shape == "int" {
						add(fw, c, "single-value-sent-twice", false, map[string]any{"method": "GET", "target": "/" + c.Op + "?" + q + "=abc&" + q + "=5"})
					}
				}
				// repeated single-valued header
				if c.Loc == "header" && c.Kind == "styled" && !strings.HasPrefix(c.Shape, "arr:") && c.Shape != "obj" {
					v := genValue(rng, c)
					add(fw, c, "duplicated-header", false, map[string]any{"method": "GET", "target": "/" + c.Op, "header": map[string][]string{c.Name: {v.Atoms[0], v.Atoms[0]}}})
				}
				// wrong label / matrix prefix
				if c.Loc == "path" && (c.effStyle() == "label" || c.effStyle() == "matrix") && c.Shape == "arr:int" {
					add(fw, c, "wrong-prefix", false, mkReq(c, "1,2,3", true))
				}
			}
		}
	}
	// ---- query parameters next to a form-encoded body: a field of the body is not a query parameter
	type formCase struct {
		name    string
		query   string
		body    string
		wantOK  bool
		wantArg map[string]string // params the handler must have seen (JSON text), "" = absent
	}
	fullQ := "token=tq&filter=" + url.QueryEscape(`{"limit":5}`) + "&n=7"
	formCases := []formCase{
		{"complete query, unrelated body", fullQ, "q=x&other=1", true, map[string]string{"token": `"tq"`, "n": "7", "opt": "", "note": ""}},
		{"required pass-through parameter only in the body", "filter=" + url.QueryEscape(`{"limit":5}`) + "&n=7", "token=from-the-body&q=x", false, nil},
		{"required JSON parameter only in the body", "token=tq&n=7", "filter=" + url.QueryEscape(`{"limit":5}`), false, nil},
		{"required styled parameter only in the body", "token=tq&filter=" + url.QueryEscape(`{"limit":5}`), "n=7", false, nil},
		{"every required parameter only in the body", "", fullQ, false, nil},
		{"complete query, body fields of the same names with other content", fullQ, "token=tb&filter=not-json&n=abc&opt=zz&note=nb", true, map[string]string{"token": `"tq"`, "n": "7", "opt": "", "note": ""}},
		{"optional parameters only in the body", fullQ, "opt=3&note=nb", true, map[string]string{"token": `"tq"`, "n": "7", "opt": "", "note": ""}},
	}
	formIDs := map[string]formCase{}
	for _, fw := range Frameworks {
		name := "par_" + fw + "_form"
		if st := lab.Status[name]; !st.OK {
			r.Violate("lab_package_broken:"+name, fmt.Sprintf("package %s does not build: generate error %q, compile error %q", name, st.GenerateError, trunc(st.CompileError, 400)), map[string]any{"framework": fw})
			continue
		}
		for i, fc := range formCases {
			id := fmt.Sprintf("%s/form/%d", name, i)
			target := "/search"
			if fc.query != "" {
				target += "?" + fc.query
			}
			scenarios = append(scenarios, map[string]any{"id": id, "pkg": name, "opts": map[string]any{"short_circuit": -1, "strict_short_circuit": -1},
				"req": map[string]any{"method": "POST", "target": target, "header": map[string][]string{"Content-Type": {"application/x-www-form-urlencoded"}}, "body": fc.body}})
			formIDs[id] = fc
		}
	}
	results, err := lab.Run(scenarios)
	if err != nil {
		r.Violate("lab_run_failed", err.Error(), nil)
		return
	}
	fcases := NewCases("cases_C06_form", "From V Require Import Model.Wrapper Corr.Eval.", "list (string * bool) * list (string * presence) * list (string * presence) * bool", "mismatches_form")
	defer fcases.WriteTo(r)
	// what the text under each name is, for the parameter of that name: binds or malformed
	formState := func(enc string) string {
		vals, _ := url.ParseQuery(enc)
		var out []string
		for _, k := range []string{"token", "filter", "n", "opt", "note"} {
			v, ok := vals[k]
			if !ok {
				continue
			}
			st := "Binds"
			switch k {
			case "filter":
				var x map[string]any
				if json.Unmarshal([]byte(v[0]), &x) != nil {
					st = "Malformed"
				}
			case "n", "opt":
				if _, err := strconv.Atoi(v[0]); err != nil {
					st = "Malformed"
				}
			}
			out = append(out, fmt.Sprintf("(%s, %s)", gendoc.CoqStr(k), st))
		}
		return "[" + strings.Join(out, "; ") + "]"
	}
	const formDecl = `[("token"%string, true); ("filter"%string, true); ("n"%string, true); ("opt"%string, false); ("note"%string, false)]`
	for _, sc := range scenarios {
		id := sc["id"].(string)
		fc, ok := formIDs[id]
		if !ok {
			continue
		}
		res := results[id]
		fw := strings.Split(id, "_")[1]
		replay := map[string]any{"framework": fw, "scenario": sc, "case": fc.name}
		r.Count("form/"+id, true)
		r.Dist["kind=query-parameters-next-to-a-form-body"]++
		if res == nil || res.Err != "" {
			e := "no result"
			if res != nil {
				e = res.Err
			}
			r.Violate("scenario_error", id+" "+trunc(e, 200), replay)
			continue
		}
		var hs []LabEvent
		for _, e := range res.Trace {
			if e.Kind == "handler" {
				hs = append(hs, e)
			}
		}
		fcases.Add(fmt.Sprintf("(%s, %s, %s, %v)", formDecl, formState(fc.query), formState(fc.body), len(hs) > 0), replay)
		if !fc.wantOK {
			if len(hs) != 0 || res.Status != 400 {
				r.Violate("form_body_field_taken_for_query_parameter/"+fw, fmt.Sprintf("%s POST /search?%s with form body %q (%s): handler calls %d, status %d, want no call and 400", fw, fc.query, fc.body, fc.name, len(hs), res.Status), replay)
			}
			continue
		}
		if len(hs) != 1 {
			r.Violate("wellformed_rejected/"+fw+"/query/form-body", fmt.Sprintf("%s POST /search?%s with form body %q (%s): handler calls %d, status %d %q", fw, fc.query, fc.body, fc.name, len(hs), res.Status, trunc(res.RespBody, 100)), replay)
			continue
		}
		var params map[string]json.RawMessage
		_ = json.Unmarshal(hs[0].Data["params"], &params)
		for k, want := range fc.wantArg {
			got := string(params[k])
			if got == "null" {
				got = ""
			}
			if got != want {
				r.Violate("form_body_field_taken_for_query_parameter/"+fw, fmt.Sprintf("%s POST /search?%s with form body %q (%s): handler saw %s = %s, want %q", fw, fc.query, fc.body, fc.name, k, got, want), replay)
			}
		}
	}
	wcases := NewCases("cases_C06", "From V Require Import Model.Wrapper Corr.Eval.", "list param * list wevent", "mismatches_wrapper")
	defer wcases.WriteTo(r)
	for _, sc := range scenarios {
		id := sc["id"].(string)
		if _, isForm := formIDs[id]; isForm {
			continue
		}
		m := metas[id]
		res := results[id]
		replay := map[string]any{"framework": m.fw, "cell": m.cell, "scenario": sc, "corruption": m.kind}
		if res != nil && m.fw == "stdhttp" && strings.Contains(res.Err, "bad wildcard name") {
			r.Violate("stdhttp_path_parameter_name_not_a_go_identifier", "std-http "+m.cell.key()+": "+res.Err, replay)
			continue
		}
		if res == nil || res.Err != "" {
			e := ""
			if res != nil {
				e = res.Err
			}
			r.Violate("scenario_error", id+" "+trunc(e, 200), replay)
			continue
		}
		r.Count(fmt.Sprintf("%s/%s/%s/%v", m.fw, m.cell.key(), m.kind, sc["req"]), m.kind != "missing" || m.cell.Required)
		r.Dist["kind="+m.kind]++
		handlers, errh := 0, 0
		for _, e := range res.Trace {
			if e.Kind == "handler" {
				handlers++
			}
			if e.Kind == "errhandler" {
				errh++
			}
		}
		if len(r.Samples) < 3 && m.kind == "overflow" {
			r.Sample(map[string]any{"framework": m.fw, "cell": m.cell.key(), "request": sc["req"], "status": res.Status, "trace": res.Trace})
		}
		// model tie: one parameter per operation; known deviations are kept out (they are reported below)
		state := "Malformed"
		if m.kind == "missing" {
			state = "Absent"
		}
		if m.kind == "well-formed" {
			state = "Binds"
		}
		tr := "[WHandler]"
		if handlers == 0 {
			tr = "[WErr 0]"
		}
		if (m.wantOK && handlers == 1) || (!m.wantOK && handlers == 0) {
			wcases.Add(fmt.Sprintf("([{| p_required := %v; p_state := %s |}], %s)", m.cell.Required || m.cell.Loc == "path", state, tr), replay)
		}
		if m.wantOK {
			if handlers != 1 {
				sig := "wellformed_rejected/" + m.fw + "/" + m.cell.Loc + "/" + m.kind
				if m.fw == "fiber" && m.cell.Loc == "path" && strings.Contains(m.cell.Name, "-") && handlers == 0 && res.Status == 404 {
					sig = "fiber_path_parameter_name_with_dash_not_routed" // third-party route syntax, recorded for C04 / C05 as well
				}
				what := "optional parameter omitted"
				if m.kind == "well-formed" {
					what = "parameter present and well-formed"
				}
				r.Violate(sig, fmt.Sprintf("%s %s: %s, handler calls %d, status %d", m.fw, m.cell.key(), what, handlers, res.Status), replay)
			}
			continue
		}
		if handlers != 0 {
			sig := "malformed_reached_handler/" + m.fw + "/" + m.cell.Loc + "/" + m.cell.effStyle() + "/" + m.cell.Shape + "/" + m.kind
			unnamed := m.cell.Loc == "query" && m.cell.Kind == "styled" && ((m.cell.Shape == "obj" && m.cell.effExplode()) || m.cell.effStyle() == "deepObject")
			switch {
			case m.kind == "missing" && unnamed && (m.fw == "echo" || m.fw == "iris"):
				sig = "runtime_required_query_object_without_own_key_not_enforced"
			case m.kind == "missing" && m.cell.Loc == "query" && (m.cell.Shape == "date" || m.cell.Shape == "datetime") && (m.fw == "echo" || m.fw == "iris"):
				sig = "runtime_required_date_query_parameter_not_enforced"
			case m.kind == "duplicated-header" && m.fw == "fiber":
				sig = "fiber_duplicated_header_not_detected"
			case (m.cell.effStyle() == "label" || m.cell.effStyle() == "matrix") && m.kind != "wrong-prefix":
				sig = "runtime_label_matrix_primitive_not_validated/" + m.kind
			}
			r.Violate(sig, fmt.Sprintf("%s %s %s: request %v reached the handler (status %d)", m.fw, m.cell.key(), m.kind, sc["req"], res.Status), replay)
			continue
		}
		if res.Status != 400 {
			r.Violate("rejection_status/"+m.fw+"/"+m.cell.Loc, fmt.Sprintf("%s %s %s: rejected with status %d, want 400", m.fw, m.cell.key(), m.kind, res.Status), replay)
		}
		if m.errh && (m.fw == "chi" || m.fw == "gorilla" || m.fw == "stdhttp" || m.fw == "gin" || m.fw == "echo") && errh != 1 {
			r.Violate("error_handler_not_called/"+m.fw+"/"+m.cell.Loc, fmt.Sprintf("%s %s %s: configured error handler called %d times", m.fw, m.cell.key(), m.kind, errh), replay)
		}
	}
	r.Exhaustive = thorough
	runC06Combine(r, rng, thorough)
	r.Rule = "function level: CombineOperationParameters on random path-level / operation-level parameter lists vs the model; every operation of the parameter family (one per cell of location x style x explode x shape x required x schema/JSON content) x {parameter present and well-formed in the OAS table's serialisation (must be accepted; arrays of two or more elements, objects), required parameter missing, optional parameter missing (must be accepted), wrong type, integer overflow, bad date / date-time / uuid, wrong array element, malformed JSON content (truncated, wrong member type, a complete value followed by more text), wrong label/matrix prefix, duplicated single-valued header, a query key sent several times with a malformed first occurrence (exploded array; single-valued parameter), header present with an empty value (non-string types)} x 7 frameworks x {default error path, configured error handler}; a POST operation with required pass-through / JSON / styled and optional query parameters next to a form-encoded body whose fields carry the parameters' names (required parameter only in the body: rejected; complete query with same-named body fields: accepted with the query's values; optional only in the body: absent); oracle: zero handler calls and status 400 / error handler invoked for corrupted requests, exactly one handler call for well-formed ones; non-trivial = a corruption or a missing required parameter"
}
