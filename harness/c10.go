package main

import (
	"encoding/json"
	"fmt"
	"math/rand"
	"regexp"
	"sort"
	"strings"

	"github.com/getkin/kin-openapi/openapi3"
	"github.com/oapi-codegen/oapi-codegen/v2/pkg/codegen"

	"verif/harness/gendoc"
)

type mleaf struct {
	Type     string            `json:"type"` // "" = absent
	Format   string            `json:"format"`
	Required []string          `json:"required"`
	Props    map[string]string `json:"props"` // name -> "s" | "i"
	Addl     string            `json:"addl"`  // "" absent, "true", "false", "s", "i"
	Nullable bool              `json:"nullable"`
}

func genLeaf(rng *rand.Rand) mleaf {
	l := mleaf{Props: map[string]string{}}
	l.Type = []string{"object", "object", "object", "", "string"}[rng.Intn(5)]
	l.Format = []string{"", "", "", "", "date"}[rng.Intn(5)]
	for _, p := range []string{"a", "b", "c", "d"} {
		if rng.Intn(2) == 0 {
			l.Props[p] = []string{"s", "i"}[rng.Intn(2)]
			if rng.Intn(2) == 0 {
				l.Required = append(l.Required, p)
			}
		}
	}
	l.Addl = []string{"", "", "", "true", "false", "s", "i"}[rng.Intn(7)]
	l.Nullable = rng.Intn(8) == 0
	return l
}

func propSchema(id string) *openapi3.SchemaRef {
	t := "string"
	if id == "i" {
		t = "integer"
	}
	return &openapi3.SchemaRef{Value: &openapi3.Schema{Type: &openapi3.Types{t}}}
}

func (l mleaf) schema() openapi3.Schema {
	s := openapi3.Schema{Format: l.Format, Required: append([]string(nil), l.Required...), Nullable: l.Nullable}
	if l.Type != "" {
		s.Type = &openapi3.Types{l.Type}
	}
	if len(l.Props) > 0 {
		s.Properties = openapi3.Schemas{}
		for k, v := range l.Props {
			s.Properties[k] = propSchema(v)
		}
	}
	switch l.Addl {
	case "true":
		t := true
		s.AdditionalProperties.Has = &t
	case "false":
		f := false
		s.AdditionalProperties.Has = &f
	case "s", "i":
		s.AdditionalProperties.Schema = propSchema(l.Addl)
	}
	return s
}

func (l mleaf) jsonSchema() map[string]any {
	m := map[string]any{}
	if l.Type != "" {
		m["type"] = l.Type
	}
	if l.Format != "" {
		m["format"] = l.Format
	}
	if len(l.Required) > 0 {
		m["required"] = l.Required
	}
	if len(l.Props) > 0 {
		ps := map[string]any{}
		for k, v := range l.Props {
			ps[k] = map[string]any{"type": map[string]string{"s": "string", "i": "integer"}[v]}
		}
		m["properties"] = ps
	}
	switch l.Addl {
	case "true":
		m["additionalProperties"] = true
	case "false":
		m["additionalProperties"] = false
	case "s", "i":
		m["additionalProperties"] = map[string]any{"type": map[string]string{"s": "string", "i": "integer"}[l.Addl]}
	}
	if l.Nullable {
		m["nullable"] = true
	}
	return m
}

func coqAddl(a string) string {
	switch a {
	case "":
		return "AAbsent"
	case "true":
		return "ATrue"
	case "false":
		return "AFalse"
	}
	return "ASchema " + gendoc.CoqStr(a)
}

func (l mleaf) coq() string {
	t := "None"
	if l.Type != "" {
		t = "(Some " + gendoc.CoqStr(l.Type) + ")"
	}
	ks := make([]string, 0, len(l.Props))
	for k := range l.Props {
		ks = append(ks, k)
	}
	sort.Strings(ks)
	var ps []string
	for _, k := range ks {
		ps = append(ps, "("+gendoc.CoqStr(k)+", "+gendoc.CoqStr(l.Props[k])+")")
	}
	return fmt.Sprintf("{| l_type := %s; l_format := %s; l_required := %s; l_props := [%s]; l_addl := %s; l_nullable := %v |}",
		t, gendoc.CoqStr(l.Format), gendoc.CoqStrList(l.Required), strings.Join(ps, "; "), coqAddl(l.Addl), l.Nullable)
}

var jsonTagRE = regexp.MustCompile(`json:"([^",]+)`)

func permutations(n int) [][]int {
	var out [][]int
	var rec func(cur []int, used []bool)
	rec = func(cur []int, used []bool) {
		if len(cur) == n {
			out = append(out, append([]int(nil), cur...))
			return
		}
		for i := 0; i < n; i++ {
			if !used[i] {
				used[i] = true
				rec(append(cur, i), used)
				used[i] = false
			}
		}
	}
	rec(nil, make([]bool, n))
	return out
}

func runC10(r *Report, rng *rand.Rand, thorough bool) {
	// ---- hook level: mergeOpenapiSchemas vs the model
	mcases := NewCases("cases_C10_merge2", "From V Require Import Model.Merge Corr.Eval.",
		"leaf * leaf * option (option string * string * list string * list (string * string) * addl)", "mismatches_merge2")
	nPairs := 300
	if thorough {
		nPairs = 4000
	}
	// members of primitive type: every ordered pair of (type, format) over the JSON types, first
	type tf struct{ t, f string }
	prims := []tf{{"string", ""}, {"string", "date"}, {"integer", ""}, {"integer", "int64"}, {"number", ""}, {"number", "double"}, {"boolean", ""}, {"array", ""}, {"object", ""}}
	var primPairs [][2]mleaf
	for _, x := range prims {
		for _, y := range prims {
			primPairs = append(primPairs, [2]mleaf{{Type: x.t, Format: x.f, Props: map[string]string{}}, {Type: y.t, Format: y.f, Props: map[string]string{}}})
		}
	}
	for i := 0; i < nPairs+len(primPairs); i++ {
		var a, b mleaf
		if i < len(primPairs) {
			a, b = primPairs[i][0], primPairs[i][1]
			r.Dist["merge2=primitive-members"]++
		} else {
			a, b = genLeaf(rng), genLeaf(rng)
		}
		res, err := codegen.VerifMergeOpenapiSchemas(a.schema(), b.schema(), true)
		obs := "None"
		replay := map[string]any{"a": a, "b": b}
		r.Count(fmt.Sprintf("merge2/%v/%v", a, b), err == nil)
		if err == nil {
			t := "None"
			if res.Type != nil && len(res.Type.Slice()) > 0 {
				t = "(Some " + gendoc.CoqStr(res.Type.Slice()[0]) + ")"
			}
			var ps [][2]string
			for k, v := range res.Properties {
				id := "s"
				if v.Value.Type.Is("integer") {
					id = "i"
				}
				ps = append(ps, [2]string{k, id})
			}
			ps = sortPairs(ps)
			ad := "AAbsent"
			switch {
			case res.AdditionalProperties.Schema != nil:
				id := "s"
				if res.AdditionalProperties.Schema.Value.Type.Is("integer") {
					id = "i"
				}
				ad = "ASchema " + gendoc.CoqStr(id)
			case res.AdditionalProperties.Has != nil && *res.AdditionalProperties.Has:
				ad = "ATrue"
			case res.AdditionalProperties.Has != nil:
				ad = "AFalse"
			}
			obs = fmt.Sprintf("(Some (%s, %s, %s, %s, %s))", t, gendoc.CoqStr(res.Format), gendoc.CoqStrList(res.Required), coqPairs(ps), ad)
			// oracle: union of properties, required iff some member requires, additional rule
			for k := range a.Props {
				if _, ok := res.Properties[k]; !ok {
					r.Violate("merge_loses_property", "property "+k+" of the first member is missing", replay)
				}
			}
			for k := range b.Props {
				if _, ok := res.Properties[k]; !ok {
					r.Violate("merge_loses_property", "property "+k+" of the second member is missing", replay)
				}
			}
			if len(res.Properties) > len(a.Props)+len(b.Props) {
				r.Violate("merge_invents_property", "more properties than the members have", replay)
			}
			reqSet := map[string]bool{}
			for _, x := range res.Required {
				reqSet[x] = true
			}
			for _, x := range append(append([]string(nil), a.Required...), b.Required...) {
				if !reqSet[x] {
					r.Violate("merge_loses_required", "required "+x+" lost", replay)
				}
			}
			if (a.Addl == "false" || b.Addl == "false") && ad != "AFalse" {
				r.Violate("merge_additional_rule", "a member forbids additional properties, the result allows them", replay)
			}
		} else {
			// oracle: an error is only acceptable for a stated conflict
			conflict := (a.Type != "" && b.Type != "" && a.Type != b.Type) || a.Format != b.Format || a.Nullable != b.Nullable ||
				((a.Addl == "s" || a.Addl == "i") && (b.Addl == "s" || b.Addl == "i") && a.Addl != "false" && b.Addl != "false")
			if !conflict {
				r.Violate("merge_rejects_compatible", fmt.Sprintf("compatible members rejected: %v", err), replay)
			}
		}
		if err == nil && a.Type != "" && b.Type != "" && a.Type != b.Type {
			r.Violate("merge_silently_resolves_type_conflict", "members of different type merged", replay)
		}
		mcases.Add(fmt.Sprintf("(%s, %s, %s)", a.coq(), b.coq(), obs), replay)
	}
	mcases.WriteTo(r)

	// ---- end to end: allOf lists in every permutation, both merge modes
	nLists := 25
	if thorough {
		nLists = 400
	}
	// fixed two-member lists first (flat, both orders): a typed object next to an untyped member that carries only what it
	// says about additional properties (the "decorated reference" shape), or only properties
	base := mleaf{Type: "object", Props: map[string]string{"a": "s", "b": "i"}, Required: []string{"a"}}
	presets := [][]mleaf{
		{base, {Props: map[string]string{}, Addl: "true"}},
		{base, {Props: map[string]string{}, Addl: "i"}},
		{base, {Props: map[string]string{}, Addl: "s"}},
		{base, {Props: map[string]string{"c": "s"}}},
		{base, {Props: map[string]string{}, Addl: "false"}},
	}
	for i := -len(presets); i < nLists; i++ {
		n := 1 + rng.Intn(3)
		var members []mleaf
		if i < 0 {
			members = presets[i+len(presets)]
			n = len(members)
		}
		for j := 0; j < n && i >= 0; j++ {
			m := genLeaf(rng)
			m.Type, m.Format, m.Nullable = "object", "", false // compatible members
			if rng.Intn(3) == 0 {
				m.Type = "" // a member that does not say "type: object" (a decoration next to a reference)
				r.Dist["allof-member=untyped"]++
				if rng.Intn(2) == 0 {
					// ... and carries nothing but what it says about additional properties
					m.Props, m.Required = map[string]string{}, nil
					if m.Addl == "" || m.Addl == "false" {
						m.Addl = []string{"true", "i", "s"}[rng.Intn(3)]
					}
					r.Dist["allof-member=additional-properties-only"]++
				}
			}
			if m.Addl == "s" || m.Addl == "i" {
				if rng.Intn(2) == 0 {
					m.Addl = ""
				}
			}
			members = append(members, m)
		}
		// at most one member with a schema-valued additionalProperties (two are rejected by design)
		seenSchema := false
		for j := range members {
			if members[j].Addl == "s" || members[j].Addl == "i" {
				if seenSchema {
					members[j].Addl = ""
				}
				seenSchema = true
			}
		}
		// same-named properties must be identical across members ("overlapping identical properties")
		first := map[string]string{}
		for j := range members {
			for k, v := range members[j].Props {
				if f, ok := first[k]; ok {
					members[j].Props[k] = f
				} else {
					first[k] = v
				}
			}
		}
		for _, old := range []bool{false, true} {
			var fieldSets []string
			for _, perm := range permutations(n) {
				comps := map[string]any{}
				var allOf []any
				for pi, mi := range perm {
					m := members[mi]
					if pi%2 == 0 {
						name := fmt.Sprintf("M%d", mi)
						comps[name] = m.jsonSchema()
						allOf = append(allOf, map[string]any{"$ref": "#/components/schemas/" + name})
					} else {
						allOf = append(allOf, m.jsonSchema())
					}
				}
				// nesting: the first two entries become one member that is itself an allOf (by reference or inline);
				// allOf is transitive, so the merged type is the same
				nest := "flat"
				if len(allOf) >= 2 {
					switch i % 5 {
					case 3:
						// a one-member allOf (the "decorate a reference" idiom) around the nested composition
						nest = "wrapped-ref"
						comps["Nest"] = map[string]any{"allOf": []any{allOf[0], allOf[1]}}
						comps["Wrap"] = map[string]any{"description": "decorated", "allOf": []any{map[string]any{"$ref": "#/components/schemas/Nest"}}}
						allOf = append([]any{map[string]any{"$ref": "#/components/schemas/Wrap"}}, allOf[2:]...)
						if len(allOf) == 1 {
							allOf = append(allOf, map[string]any{"type": "object"})
						}
					case 4:
						nest = "wrapped-inline"
						allOf = append(append([]any{}, allOf[2:]...), map[string]any{"allOf": []any{map[string]any{"allOf": []any{allOf[0], allOf[1]}}}})
						if len(allOf) == 1 {
							allOf = append([]any{map[string]any{"type": "object"}}, allOf...)
						}
					case 1:
						nest = "nested-ref"
						comps["Nest"] = map[string]any{"allOf": []any{allOf[0], allOf[1]}}
						allOf = append([]any{map[string]any{"$ref": "#/components/schemas/Nest"}}, allOf[2:]...)
						if len(allOf) == 1 { // keep two members at the top level: the nested one and an empty object
							allOf = append(allOf, map[string]any{"type": "object"})
						}
					case 2:
						nest = "nested-inline"
						allOf = append([]any{map[string]any{"allOf": []any{allOf[0], allOf[1]}}}, allOf[2:]...)
						if len(allOf) == 1 {
							allOf = append([]any{map[string]any{"type": "object"}}, allOf...)
						}
					}
				}
				r.Dist["allof="+nest]++
				comps["Merged"] = map[string]any{"allOf": allOf}
				spec, _ := json.Marshal(map[string]any{"openapi": "3.0.3", "info": map[string]any{"title": "m", "version": "1"}, "paths": map[string]any{}, "components": map[string]any{"schemas": comps}})
				cfg := codegen.Configuration{PackageName: "gen", Generate: codegen.GenerateOptions{Models: true}}
				cfg.OutputOptions.SkipPrune = true
				cfg.Compatibility.OldMergeSchemas = old
				replay := map[string]any{"spec": json.RawMessage(spec), "old_merge_schemas": old, "members": members, "permutation": perm}
				code, err := generate(spec, cfg)
				r.Count(fmt.Sprintf("allof/%v/%v/%v", members, perm, old), n > 1)
				r.Dist[fmt.Sprintf("members=%d", n)]++
				if err != nil {
					r.Violate("allof_generation_fails", fmt.Sprintf("compatible allOf members %v (old=%v): %s", members, old, trunc(err.Error(), 200)), replay)
					continue
				}
				if old {
					// the legacy mode embeds the referenced members and inlines the others, so the field list depends on which
					// members are references. What it must keep in every order: when an inline member of type object with properties of its own allows
					// additional properties (a member that has nothing but additionalProperties is a map type, which the legacy mode embeds as such) the merged struct holds them (field AdditionalProperties), and a struct that has the field
					// (tagged json:"-") also has the accessors and the custom (un)marshallers that fill and emit it - a field
					// without them silently drops every additional member of a valid instance
					if p, perr := parseGo(code); perr == nil {
						fields, isStruct := structFields(p, "Merged")
						hasField := false
						for _, f := range fields {
							if f.GoName == "AdditionalProperties" {
								hasField = true
							}
						}
						decl := map[string]bool{}
						for _, dn := range p.declNames() {
							decl[dn] = true
						}
						nm := 0
						for _, mn := range []string{"Get", "Set", "UnmarshalJSON", "MarshalJSON"} {
							if decl["func Merged."+mn] {
								nm++
							}
						}
						inlineAddl := false
						if nest == "flat" {
							for pi, mi := range perm {
								if pi%2 == 1 && members[mi].Type == "object" && len(members[mi].Props) > 0 && (members[mi].Addl == "true" || members[mi].Addl == "s" || members[mi].Addl == "i") {
									inlineAddl = true
								}
							}
						}
						r.Dist[fmt.Sprintf("old_mode_additional_properties_field=%v", hasField)]++
						if isStruct && hasField && nm != 4 {
							r.Violate("allof_old_mode_additional_properties_dropped", fmt.Sprintf("old merge mode, members %v order %v: the merged struct has the field AdditionalProperties but %d of the 4 methods Get / Set / UnmarshalJSON / MarshalJSON", members, perm, nm), replay)
						}
						if isStruct && inlineAddl && !hasField {
							r.Violate("allof_old_mode_additional_properties_dropped", fmt.Sprintf("old merge mode, members %v order %v: an inline member allows additional properties, the merged struct has no field for them", members, perm), replay)
						}
					}
					continue
				}
				p, _ := parseGo(code)
				fields, ok := structFields(p, "Merged")
				if !ok {
					if n == 1 {
						continue // a single $ref member is an alias of that member
					}
					nprops := 0
					for _, m := range members {
						nprops += len(m.Props)
					}
					if nprops == 0 {
						continue // no member has properties: the merged type is a map / free-form type, not a struct
					}
					r.Violate("allof_not_a_struct", "merged type is not a struct", replay)
					continue
				}
				var got []string
				hasAddl := false
				for _, f := range fields {
					if f.GoName == "AdditionalProperties" {
						hasAddl = true
						got = append(got, "AdditionalProperties:"+f.Type)
						continue
					}
					tag := jsonTagOf(f.Tag)
					got = append(got, strings.Split(tag, ",")[0]+":"+f.Type)
				}
				sort.Strings(got)
				// statement
				var want []string
				req := map[string]bool{}
				props := map[string]string{}
				addl := ""
				forbid := false
				for _, m := range members {
					for _, x := range m.Required {
						req[x] = true
					}
					for k, v := range m.Props {
						props[k] = v
					}
					switch m.Addl {
					case "false":
						forbid = true
					case "s", "i":
						addl = m.Addl
					case "true":
						if addl == "" {
							addl = "any"
						}
					}
				}
				for k, v := range props {
					t := map[string]string{"s": "string", "i": "int"}[v]
					if !req[k] {
						t = "*" + t
					}
					want = append(want, k+":"+t)
				}
				if !forbid && addl != "" {
					want = append(want, "AdditionalProperties:map[string]"+map[string]string{"s": "string", "i": "int", "any": "interface{}"}[addl])
				}
				sort.Strings(want)
				_ = hasAddl
				if strings.Join(got, " ") != strings.Join(want, " ") {
					r.Violate("allof_fields", fmt.Sprintf("members %v order %v: fields %v, union of the members is %v", members, perm, got, want), replay)
				}
				fieldSets = append(fieldSets, strings.Join(got, " "))
				if len(r.Samples) < 3 && n == 3 {
					r.Sample(map[string]any{"members": members, "order": perm, "fields": got})
				}
			}
			for _, fs := range fieldSets {
				if fs != fieldSets[0] {
					r.Violate("allof_order_dependent", fmt.Sprintf("members %v: different fields for different orders", members), map[string]any{"members": members})
					break
				}
			}
		}
	}
	// ---- members carrying oneOf / anyOf: the union survives the merge wherever its member stands in the list (every
	// permutation of 2-3 members), and the declarations of the merged type do not depend on the order
	{
		base := map[string]any{"Cat": map[string]any{"type": "object", "properties": map[string]any{"meow": map[string]any{"type": "boolean"}}},
			"Dog":   map[string]any{"type": "object", "properties": map[string]any{"bark": map[string]any{"type": "boolean"}}},
			"Base":  map[string]any{"type": "object", "required": []string{"id"}, "properties": map[string]any{"id": map[string]any{"type": "integer"}}},
			"Extra": map[string]any{"type": "object", "properties": map[string]any{"name": map[string]any{"type": "string"}}}}
		for _, key := range []string{"oneOf", "anyOf"} {
			union := map[string]any{key: []any{map[string]any{"$ref": "#/components/schemas/Cat"}, map[string]any{"$ref": "#/components/schemas/Dog"}}}
			for _, others := range [][]any{{map[string]any{"$ref": "#/components/schemas/Base"}}, {map[string]any{"$ref": "#/components/schemas/Base"}, map[string]any{"$ref": "#/components/schemas/Extra"}},
				{map[string]any{"type": "object", "properties": map[string]any{"inl": map[string]any{"type": "string"}}}}} {
				members := append([]any{union}, others...)
				var declSets []string
				for _, perm := range permutations(len(members)) {
					var allOf []any
					for _, mi := range perm {
						allOf = append(allOf, members[mi])
					}
					comps := map[string]any{}
					for k, v := range base {
						comps[k] = v
					}
					comps["Merged"] = map[string]any{"allOf": allOf}
					spec, _ := json.Marshal(map[string]any{"openapi": "3.0.3", "info": map[string]any{"title": "m", "version": "1"}, "paths": map[string]any{}, "components": map[string]any{"schemas": comps}})
					cfg := codegen.Configuration{PackageName: "gen", Generate: codegen.GenerateOptions{Models: true}}
					cfg.OutputOptions.SkipPrune = true
					replay := map[string]any{"spec": json.RawMessage(spec), "union_member_position": perm, "keyword": key}
					r.Count(fmt.Sprintf("allof-union/%s/%d/%v", key, len(members), perm), true)
					r.Dist["allof_member_carrying_"+key]++
					code, err := generate(spec, cfg)
					if err != nil {
						r.Violate("allof_generation_fails", fmt.Sprintf("allOf with a member carrying %s, order %v: %s", key, perm, trunc(err.Error(), 200)), replay)
						continue
					}
					p, perr := parseGo(code)
					if perr != nil {
						continue
					}
					fields, _ := structFields(p, "Merged")
					hasUnion := false
					for _, f := range fields {
						if f.GoName == "union" {
							hasUnion = true
						}
					}
					var mine []string
					for _, dn := range p.declNames() {
						if strings.HasPrefix(dn, "func Merged.") {
							mine = append(mine, dn)
						}
					}
					need := 0
					for _, dn := range mine {
						if dn == "func Merged.AsCat" || dn == "func Merged.FromDog" || dn == "func Merged.MarshalJSON" || dn == "func Merged.UnmarshalJSON" {
							need++
						}
					}
					if !hasUnion || need != 4 {
						r.Violate("allof_member_union_lost", fmt.Sprintf("allOf whose member number %d carries %s [Cat, Dog]: the merged type has union field = %v and methods %v", indexOf(perm, 0)+1, key, hasUnion, mine), replay)
					}
					declSets = append(declSets, strings.Join(mine, " "))
				}
				for _, ds := range declSets {
					if ds != declSets[0] {
						r.Violate("allof_order_dependent", fmt.Sprintf("allOf with a member carrying %s: the methods of the merged type depend on the order of the members", key), map[string]any{"keyword": key})
						break
					}
				}
			}
		}
	}
	// ---- the legacy merge and additional properties: EVERY list of 1-3 inline object members over {none, true, string,
	// integer} generated with old-merge-schemas; observed = rejected / no field / the value type of the field, compared with
	// the model's fold (Model/Merge.v v1_addl) and with the statement (kept as soon as some member has them, in every order)
	{
		vcases := NewCases("cases_C10_legacy_addl", "From V Require Import Model.Merge Corr.Eval.", "list (option string) * option (option string)", "mismatches_v1_addl")
		kinds := []string{"", "true", "s", "i"}
		goOf := map[string]string{"true": "interface{}", "s": "string", "i": "int"}
		var lists [][]string
		for _, a := range kinds {
			lists = append(lists, []string{a})
			for _, b := range kinds {
				lists = append(lists, []string{a, b})
				for _, c := range kinds {
					lists = append(lists, []string{a, b, c})
				}
			}
		}
		for _, l := range lists {
			var allOf []any
			var terms []string
			for i, k := range l {
				m := map[string]any{"type": "object", "properties": map[string]any{fmt.Sprintf("p%d", i): map[string]any{"type": "string"}}}
				switch k {
				case "true":
					m["additionalProperties"] = true
				case "s":
					m["additionalProperties"] = map[string]any{"type": "string"}
				case "i":
					m["additionalProperties"] = map[string]any{"type": "integer"}
				}
				allOf = append(allOf, m)
				if k == "" {
					terms = append(terms, "None")
				} else {
					terms = append(terms, "(Some "+gendoc.CoqStr(goOf[k])+")")
				}
			}
			spec, _ := json.Marshal(map[string]any{"openapi": "3.0.3", "info": map[string]any{"title": "m", "version": "1"}, "paths": map[string]any{},
				"components": map[string]any{"schemas": map[string]any{"Merged": map[string]any{"allOf": allOf}}}})
			cfg := codegen.Configuration{PackageName: "gen", Generate: codegen.GenerateOptions{Models: true}}
			cfg.OutputOptions.SkipPrune = true
			cfg.Compatibility.OldMergeSchemas = true
			replay := map[string]any{"spec": json.RawMessage(spec), "old_merge_schemas": true, "additional_properties_of_the_members": l}
			r.Count(fmt.Sprintf("legacy-addl/%v", l), len(l) > 1)
			r.Dist["legacy_additional_properties_lists"]++
			obs := "None"
			code, err := generate(spec, cfg)
			if err == nil {
				obs = "(Some None)"
				if p, perr := parseGo(code); perr == nil {
					fields, _ := structFields(p, "Merged")
					decl := map[string]bool{}
					for _, dn := range p.declNames() {
						decl[dn] = true
					}
					for _, f := range fields {
						if f.GoName == "AdditionalProperties" && decl["func Merged.UnmarshalJSON"] && decl["func Merged.MarshalJSON"] && decl["func Merged.Get"] && decl["func Merged.Set"] {
							obs = "(Some (Some " + gendoc.CoqStr(strings.TrimPrefix(f.Type, "map[string]")) + "))"
						}
					}
				}
			} else if !strings.Contains(err.Error(), "incompatible types") {
				r.Violate("allof_generation_fails", fmt.Sprintf("legacy merge of members with additional properties %v: %s", l, trunc(err.Error(), 200)), replay)
				continue
			}
			vcases.Add(fmt.Sprintf("([%s], %s)", strings.Join(terms, "; "), obs), replay)
			// the statement: kept (with the member's type) as soon as some member has them, unless two disagree
			types := map[string]bool{}
			for _, k := range l {
				if k != "" {
					types[goOf[k]] = true
				}
			}
			want := "(Some None)"
			if len(types) == 1 {
				for t := range types {
					want = "(Some (Some " + gendoc.CoqStr(t) + "))"
				}
			} else if len(types) > 1 {
				want = "None"
			}
			if obs != want {
				r.Violate("allof_old_mode_additional_properties_dropped", fmt.Sprintf("legacy merge, additional properties of the members %v: observed %s, the statement gives %s", l, obs, want), replay)
			}
		}
		vcases.WriteTo(r)
	}
	// ---- end to end: members that disagree on type or format are rejected, in either order, referenced or inline
	for _, x := range prims {
		for _, y := range prims {
			if x == y || x.t == "object" || y.t == "object" || x.t == "array" || y.t == "array" {
				continue
			}
			sch := func(v tf) map[string]any {
				m := map[string]any{"type": v.t}
				if v.f != "" {
					m["format"] = v.f
				}
				return m
			}
			for _, inline := range []bool{false, true} {
				comps := map[string]any{"A": sch(x), "B": sch(y)}
				allOf := []any{map[string]any{"$ref": "#/components/schemas/A"}, map[string]any{"$ref": "#/components/schemas/B"}}
				if inline {
					allOf = []any{sch(x), sch(y)}
				}
				comps["Amount"] = map[string]any{"allOf": allOf}
				spec, _ := json.Marshal(map[string]any{"openapi": "3.0.3", "info": map[string]any{"title": "m", "version": "1"}, "paths": map[string]any{}, "components": map[string]any{"schemas": comps}})
				cfg := codegen.Configuration{PackageName: "gen", Generate: codegen.GenerateOptions{Models: true}}
				cfg.OutputOptions.SkipPrune = true
				r.Count(fmt.Sprintf("allof-disagree/%v/%v/%v", x, y, inline), true)
				r.Dist["allof=members-disagree-on-type-or-format"]++
				code, err := generate(spec, cfg)
				if err == nil {
					decl := ""
					if m := regexp.MustCompile(`(?m)^type Amount .*$`).FindString(code); m != "" {
						decl = m
					}
					r.Violate("merge_silently_resolves_type_conflict", fmt.Sprintf("allOf of %s/%q and %s/%q (inline=%v) is accepted: %s", x.t, x.f, y.t, y.f, inline, decl), map[string]any{"spec": json.RawMessage(spec)})
				}
			}
		}
	}
	// ---- one component used as a member of several compositions: each composition is the union of ITS members,
	// and the shared component itself is unchanged (no state leaks from one merge into the next)
	nShared := 12
	if thorough {
		nShared = 150
	}
	for i := 0; i < nShared; i++ {
		baseProps := []string{"id"}
		if rng.Intn(2) == 0 {
			baseProps = append(baseProps, "name")
		}
		k := 2 + rng.Intn(2)
		refFirst := rng.Intn(3) != 0
		comps := map[string]any{}
		bp := map[string]any{}
		for _, p := range baseProps {
			bp[p] = map[string]any{"type": "string"}
		}
		baseName := []string{"Pet", "Zbase"}[rng.Intn(2)] // generated before or after the compositions (types are emitted in name order)
		comps[baseName] = map[string]any{"type": "object", "properties": bp}
		want := map[string][]string{baseName: append([]string{}, baseProps...)}
		for j := 0; j < k; j++ {
			extra := fmt.Sprintf("extra%d", j)
			inline := map[string]any{"type": "object", "properties": map[string]any{extra: map[string]any{"type": "integer"}}}
			ref := map[string]any{"$ref": "#/components/schemas/" + baseName}
			name := fmt.Sprintf("Comp%d", j)
			if refFirst {
				comps[name] = map[string]any{"allOf": []any{ref, inline}}
			} else {
				comps[name] = map[string]any{"allOf": []any{inline, ref}}
			}
			want[name] = append(append([]string{}, baseProps...), extra)
		}
		spec, _ := json.Marshal(map[string]any{"openapi": "3.0.3", "info": map[string]any{"title": "m", "version": "1"}, "paths": map[string]any{}, "components": map[string]any{"schemas": comps}})
		cfg := codegen.Configuration{PackageName: "gen", Generate: codegen.GenerateOptions{Models: true}}
		cfg.OutputOptions.SkipPrune = true
		replay := map[string]any{"spec": json.RawMessage(spec), "shared_member": baseName, "ref_first": refFirst}
		r.Count("shared/"+string(spec), true)
		r.Dist["allof=shared-member"]++
		code, err := generate(spec, cfg)
		if err != nil {
			r.Violate("allof_generation_fails", trunc(err.Error(), 200), replay)
			continue
		}
		p, _ := parseGo(code)
		for tn, props := range want {
			fields, ok := structFields(p, tn)
			if !ok {
				r.Violate("allof_not_a_struct", tn+" is not a struct", replay)
				continue
			}
			var got []string
			for _, f := range fields {
				if m := jsonTagRE.FindStringSubmatch(f.Tag); m != nil {
					got = append(got, m[1])
				} else {
					got = append(got, f.GoName)
				}
			}
			sort.Strings(got)
			w := append([]string{}, props...)
			sort.Strings(w)
			if strings.Join(got, " ") != strings.Join(w, " ") {
				r.Violate("allof_shared_member_leaks", fmt.Sprintf("%s has properties %v, its members give %v (shared member %s, reference first: %v)", tn, got, w, baseName, refFirst), replay)
			}
		}
	}
	// ---- the two refuted clauses, reproduced on the real code
	for _, w := range []struct {
		sig  string
		spec string
		bad  func(code string) string
	}{
		{"allof_member_own_properties_lost", `{"openapi":"3.0.3","info":{"title":"m","version":"1"},"paths":{},"components":{"schemas":{
			"Base":{"type":"object","properties":{"id":{"type":"string"}}},
			"Mid":{"allOf":[{"$ref":"#/components/schemas/Base"}],"type":"object","properties":{"own":{"type":"string"}}},
			"Top":{"allOf":[{"$ref":"#/components/schemas/Mid"},{"type":"object","properties":{"t":{"type":"string"}}}]}}}}`,
			func(code string) string {
				p, _ := parseGo(code)
				f, _ := structFields(p, "Top")
				for _, x := range f {
					if x.GoName == "Own" {
						return ""
					}
				}
				return "Top = allOf[Mid, {t}] where Mid = allOf[Base] + own property `own`: struct Top has no field for `own`"
			}},
		{"allof_type_from_first_member", `{"openapi":"3.0.3","info":{"title":"m","version":"1"},"paths":{},"components":{"schemas":{
			"A":{"allOf":[{"description":"d"},{"type":"string"}]},"B":{"allOf":[{"type":"string"},{"description":"d"}]}}}}`,
			func(code string) string {
				if strings.Contains(code, "type A = interface{}") && strings.Contains(code, "type B = string") {
					return "allOf[{description},{type:string}] is interface{}, the reversed order is string"
				}
				return ""
			}},
	} {
		cfg := codegen.Configuration{PackageName: "gen", Generate: codegen.GenerateOptions{Models: true}}
		cfg.OutputOptions.SkipPrune = true
		code, err := generate([]byte(w.spec), cfg)
		r.Count("witness/"+w.sig, true)
		if err != nil {
			r.Violate("witness_generation_fails/"+w.sig, err.Error(), nil)
			continue
		}
		if msg := w.bad(code); msg != "" {
			r.Violate(w.sig, msg, map[string]any{"spec": json.RawMessage(w.spec)})
		}
	}
	r.Rule = "hook level: pairs of schemas over type {absent, object, string} x format x required x properties (4 names, 2 value types) x additionalProperties {absent, true, false, schema s, schema i} x nullable through mergeOpenapiSchemas vs the model (result or rejection) and vs the statement; end to end: allOf lists of 1-3 compatible members (alternately $ref and inline, overlapping identical properties, additionalProperties true/false/schema) in EVERY permutation x {flat, first two members nested by reference, nested inline, nested behind a one-member allOf by reference / inline} x old/new merge mode through codegen.Generate (old mode: the additional-properties field and its accessors / marshallers present together, in every order; every list of 1-3 inline members over {no, untyped, string, integer} additional properties vs the model's fold), struct fields (names, pointer-ness from required, additional-properties type) vs the union of the members and equal across permutations; a member carrying oneOf / anyOf in every position of 2-3 members (union field and accessors kept, same methods in every order); one component shared by 2-3 compositions (reference first / last, emitted before / after them): every type has exactly its own members' properties; the two refuted clauses replayed; non-trivial = at least two members / a successful merge"
}

func indexOf(l []int, x int) int {
	for i, v := range l {
		if v == x {
			return i
		}
	}
	return -1
}
