package main

import (
	"fmt"
	"math/rand"
	"strings"
	"text/template"
	"unicode"

	"github.com/getkin/kin-openapi/openapi3"
	"github.com/oapi-codegen/oapi-codegen/v2/pkg/codegen"
)

// Function-level tie of coq/Model/Names.v to pkg/codegen/utils.go and codegen.go.

func runeClass(r rune) string {
	switch {
	case unicode.IsUpper(r):
		return "Upper"
	case unicode.IsLower(r):
		return "Lower"
	case unicode.IsDigit(r):
		return "Digit"
	case unicode.IsLetter(r):
		return "OLetter"
	case unicode.IsNumber(r):
		return "ONumber"
	}
	return "Other"
}

func coqCodes(s string) string {
	var ps []string
	for _, r := range s {
		ps = append(ps, fmt.Sprint(int(r)))
	}
	return "[" + strings.Join(ps, "; ") + "]%N"
}

var nameAlphabet = []rune("abcxyzABCXYZ0123456789  __--..$$#+&|~=*^%:;@!(){}[]/\\'\"`,<>?éÉßÿǅǆΩωжЖ猫名あ²³ⅧⅨ½١٢٣௧😀\t")

func randomName(rng *rand.Rand) string {
	switch rng.Intn(4) {
	case 0:
		return advNames[rng.Intn(len(advNames))]
	case 1:
		return advNames[rng.Intn(len(advNames))] + string(nameAlphabet[rng.Intn(len(nameAlphabet))]) + advNames[rng.Intn(len(advNames))]
	}
	n := rng.Intn(9)
	var sb strings.Builder
	for i := 0; i < n; i++ {
		sb.WriteRune(nameAlphabet[rng.Intn(len(nameAlphabet))])
	}
	return sb.String()
}

func runC01Names(r *Report, rng *rand.Rand, thorough bool) {
	// assumption (1) of wf_runeb, checked over the whole of Unicode: the upper-case image of a lower-case
	// letter is a letter; assumption (2): letters and numbers are none of the ASCII marks tested by value
	for c := rune(0); c <= unicode.MaxRune; c++ {
		if unicode.IsLower(c) {
			up := []rune(strings.ToUpper(string(c)))
			if len(up) != 1 || !unicode.IsLetter(up[0]) || up[0] != unicode.ToUpper(c) {
				r.Violate("unicode_assumption_upper_of_lower", fmt.Sprintf("U+%04X: ToUpper gives %q", c, string(up)), nil)
				break
			}
		}
		if (unicode.IsLetter(c) || unicode.IsNumber(c)) && c < 128 && strings.ContainsRune("-#@!$&=.+:;_~ (){}[]|*^%", c) {
			r.Violate("unicode_assumption_alnum_not_punctuation", fmt.Sprintf("U+%04X", c), nil)
			break
		}
	}
	cases := NewCases("cases_C01_names", "From V Require Import Model.Names Corr.Eval.",
		"list (N * cls * (N * cls)) * (list N * list N * list N * option (list N))", "mismatches_names")
	n := 1500
	if thorough {
		n = 12000
	}
	seen := map[string]bool{}
	for i := 0; i < n; i++ {
		name := randomName(rng)
		if seen[name] || !validUTF8NoReplacement(name) {
			continue
		}
		seen[name] = true
		var rs []string
		for _, c := range name {
			up := unicode.ToUpper(c)
			rs = append(rs, fmt.Sprintf("(%d%%N, %s, (%d%%N, %s))", int(c), runeClass(c), int(up), runeClass(up)))
		}
		san := "None"
		func() {
			defer func() { _ = recover() }()
			san = "(Some " + coqCodes(codegen.SanitizeGoIdentity(name)) + ")"
		}()
		term := fmt.Sprintf("([%s], (%s, %s, %s, %s))", strings.Join(rs, "; "), coqCodes(codegen.ToCamelCase(name)),
			coqCodes(codegen.ToCamelCaseWithDigits(name)), coqCodes(codegen.SchemaNameToTypeName(name)), san)
		cases.Add(term, map[string]any{"name": name, "ToCamelCase": codegen.ToCamelCase(name), "ToCamelCaseWithDigits": codegen.ToCamelCaseWithDigits(name),
			"SchemaNameToTypeName": codegen.SchemaNameToTypeName(name)})
		nontrivial := false
		for _, c := range name {
			if c > 127 || !unicode.IsLetter(c) {
				nontrivial = true
			}
		}
		r.Count("name:"+name, nontrivial)
		r.Dist["family=names"]++
		if len(r.Samples) < 2 && nontrivial && len(name) > 3 {
			r.Sample(map[string]any{"name": name, "SchemaNameToTypeName": codegen.SchemaNameToTypeName(name), "SanitizeGoIdentity(SchemaNameToTypeName)": codegen.SanitizeGoIdentity(codegen.SchemaNameToTypeName(name))})
		}
	}
	cases.WriteTo(r)

	// ---- GenerateTypes de-duplication, observed through a template of our own that lists the emitted names
	t := template.Must(template.New("oapi-codegen").Funcs(codegen.TemplateFunctions).Parse(`{{define "typedef.tmpl"}}{{range .Types}}{{.TypeName}} {{end}}{{end}}`))
	defs := make([]*openapi3.Schema, 4)
	for i := range defs {
		defs[i] = &openapi3.Schema{Description: fmt.Sprintf("definition %d", i)}
	}
	dcases := NewCases("cases_C01_dedup", "From V Require Import Model.Names Corr.Eval.", "list (nat * nat) * option (list nat)", "mismatches_dedup")
	nd := 400
	if thorough {
		nd = 3000
	}
	for i := 0; i < nd; i++ {
		k := rng.Intn(7)
		var tds []codegen.TypeDefinition
		var in []string
		ndefs := 1 + rng.Intn(3)
		for j := 0; j < k; j++ {
			nm, d := rng.Intn(4), rng.Intn(ndefs)
			// a fresh but equal schema object half of the time: equivalence is structural
			sch := defs[d]
			if rng.Intn(2) == 0 {
				cp := *defs[d]
				sch = &cp
			}
			tds = append(tds, codegen.TypeDefinition{TypeName: fmt.Sprintf("T%d", nm), Schema: codegen.Schema{OAPISchema: sch}})
			in = append(in, fmt.Sprintf("(%d, %d)", nm, d))
		}
		out, err := codegen.GenerateTypes(t, tds)
		obs := "None"
		if err == nil {
			var ns []string
			for _, f := range strings.Fields(out) {
				ns = append(ns, strings.TrimPrefix(f, "T"))
			}
			obs = "(Some [" + strings.Join(ns, "; ") + "])"
		}
		dcases.Add(fmt.Sprintf("([%s], %s)", strings.Join(in, "; "), obs), map[string]any{"types": in, "observed": obs})
		r.Count("dedup:"+strings.Join(in, ","), k >= 2)
		r.Dist["family=dedup"]++
	}
	dcases.WriteTo(r)
}

func validUTF8NoReplacement(s string) bool {
	for _, c := range s {
		if c == unicode.ReplacementChar {
			return false
		}
	}
	return true
}
