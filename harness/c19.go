package main

import (
	"bytes"
	"context"
	"encoding/base64"
	"encoding/json"
	"fmt"
	"math/rand"
	"reflect"
	"strings"

	"github.com/getkin/kin-openapi/openapi3"

	"verif/harness/gendoc"
)

// normaliseOpIDs rewrites every operationId below paths with f (the embedded copy may
// carry operation ids in their normalised form).
func normaliseOpIDs(root map[string]any, f func(string) string) {
	paths, _ := root["paths"].(map[string]any)
	for _, item := range paths {
		im, _ := item.(map[string]any)
		for _, op := range im {
			om, ok := op.(map[string]any)
			if !ok {
				continue
			}
			if id, ok := om["operationId"].(string); ok {
				om["operationId"] = f(id)
			}
		}
	}
}

// decorate adds text that must survive the embedding byte for byte: non-ASCII, quotes,
// backslashes, newlines and long descriptions (several chunks of 80 columns).
func decorate(rng *rand.Rand, d *gendoc.Doc) {
	texts := []string{"plain", "naïve café — 日本語 \U0001F600", "quote \" backslash \\ tab\t nl\n end", strings.Repeat("long description ", 40+rng.Intn(200)), "`backtick` ${x} %s",
		// markup, and text that SPELLS the escapes an HTML-safe JSON encoder writes (a backslash followed by u003c ...)
		"a < b && c > d, <b>bold</b> & more", `written as \u003c and \u003e, or \u0026; a JSON text: {"html":"\u003cb\u003ehi\u003c/b\u003e"}`, `back\\slashes \\u003c \n not-a-newline`}
	for _, p := range d.Paths {
		for _, o := range p.Ops {
			if rng.Intn(2) == 0 {
				o.Fields["description"] = texts[rng.Intn(len(texts))]
			}
			if rng.Intn(3) == 0 {
				o.Fields["summary"] = texts[rng.Intn(len(texts))]
			}
		}
	}
	for _, c := range d.Comps {
		if c.Kind == "schemas" && c.Body.Val != nil && rng.Intn(2) == 0 {
			c.Body.Val.Fields["description"] = texts[rng.Intn(len(texts))]
		}
	}
}

func runC19(r *Report, rng *rand.Rand, n int) {
	cases := NewCases("cases_C19", "From V Require Import Model.Prune Model.Filter Corr.Eval.",
		"filter_cfg * doc * (list string * list (string * string) * list string)", "mismatches_prepare")
	chunks := NewCases("cases_C19_chunk", "From V Require Import Model.Inline Corr.Eval.", "nat * list nat", "mismatches_chunk")
	// encoding/base64 against Model/Base64.v: byte strings of every length modulo 3 (all 256 byte values occur), the literals
	// of generated files, and texts that are no encodings (refused by both)
	b64enc := NewCases("cases_C19_base64", "From V Require Import Model.Base64 Corr.Eval.\nLocal Open Scope N_scope.", "list N * list N", "mismatches_b64_encode")
	b64dec := NewCases("cases_C19_base64_decode", "From V Require Import Model.Base64 Corr.Eval.\nLocal Open Scope N_scope.", "list N * option (list N)", "mismatches_b64_decode")
	b64lit := 0
	{
		all := make([]byte, 256)
		for i := range all {
			all[i] = byte(i)
		}
		inputs := [][]byte{{}, all, all[1:], all[2:]}
		for l := 1; l <= 12; l++ {
			b := make([]byte, l)
			rng.Read(b)
			inputs = append(inputs, b)
		}
		for k := 0; k < 20; k++ {
			b := make([]byte, rng.Intn(300))
			rng.Read(b)
			inputs = append(inputs, b)
		}
		for _, b := range inputs {
			text := base64.StdEncoding.EncodeToString(b)
			b64enc.Add(fmt.Sprintf("(%s, %s)", coqNs(b), coqNs([]byte(text))), map[string]any{"bytes": b})
			r.Dist[fmt.Sprintf("base64_len_mod_3=%d", len(b)%3)]++
			if back, err := base64.StdEncoding.DecodeString(text); err != nil || !bytes.Equal(back, b) {
				r.Violate("base64_round_trip", fmt.Sprintf("encoding/base64 does not read back what it wrote for %v", b), map[string]any{"bytes": b})
			}
		}
		for _, bad := range []string{"TQ=", "TWFu!", "TQ==TQ==", "T", "TW=u", "=TWF", "TWFu\x00AAA", "TWF"} {
			obs := "None"
			if bs, derr := base64.StdEncoding.DecodeString(bad); derr == nil {
				obs = "(Some " + coqNs(bs) + ")"
			}
			b64dec.Add(fmt.Sprintf("(%s, %s)", coqNs([]byte(bad)), obs), map[string]any{"text": bad})
			r.Dist["base64_not_an_encoding"]++
		}
	}
	defer b64enc.WriteTo(r)
	defer b64dec.WriteTo(r)
	var lastTotal int
	var exclude []string // exclude-schemas: suppresses Go types only, the embedded document keeps the schemas
	one := func(i int, d *gendoc.Doc, cfg gendoc.FilterCfg, probeOnly bool) {
		lastTotal = -1
		data := d.JSON()
		replay := map[string]any{"spec": json.RawMessage(data), "filter": cfg, "exclude_schemas": exclude}
		gcfg := cfgOf(cfg)
		gcfg.OutputOptions.ExcludeSchemas = exclude
		code, err := generate(data, gcfg)
		if err != nil {
			if strings.HasPrefix(err.Error(), "PANIC") {
				r.Violate("generate_panic", err.Error(), replay)
			}
			r.Dist["generate_error"]++
			return
		}
		p, err := parseGo(code)
		if err != nil {
			r.Dist["output_unparsable"]++
			return
		}
		parts, ok := p.swaggerSpecLiteral()
		if !ok {
			r.Violate("no_embedded_spec", "embedded spec literal not found in output", replay)
			return
		}
		if probeOnly {
			lastTotal = 0
			for _, s := range parts {
				lastTotal += len(s)
			}
			return
		}
		// chunk shape, and the model's chunking of a text of the same length
		total := 0
		lens := make([]string, len(parts))
		for j, s := range parts {
			total += len(s)
			lens[j] = fmt.Sprint(len(s))
			if len(s) == 0 || len(s) > 80 || (j < len(parts)-1 && len(s) != 80) {
				r.Violate("chunk_shape", fmt.Sprintf("line %d of the embedded text has %d characters", j, len(s)), replay)
			}
		}
		if i%4 == 0 || i < 0 {
			r.Dist[fmt.Sprintf("embedded_len_mod_80=%d", total%80)]++
			chunks.Add(fmt.Sprintf("(%d, [%s])", total, strings.Join(lens, "; ")), replay)
		}
		if b64lit < 8 {
			// the literal of this generated file, read by the model's base64 and by Go's
			b64lit++
			joined := strings.Join(parts, "")
			obs := "None"
			if bs, derr := base64.StdEncoding.DecodeString(joined); derr == nil {
				obs = "(Some " + coqNs(bs) + ")"
			}
			b64dec.Add(fmt.Sprintf("(%s, %s)", coqNs([]byte(joined)), obs), replay)
			r.Dist["base64_literal_of_a_generated_file"]++
		}
		root, raw, err := decodeEmbedded(parts)
		if err != nil {
			r.Violate("embedded_undecodable", err.Error(), replay)
			return
		}
		// loads and validates
		emb, err := loadSpec(raw)
		if err != nil {
			r.Violate("embedded_unloadable", err.Error(), replay)
			return
		}
		orig, _ := loadSpec(data)
		if orig.Validate(context.Background(), openapi3.DisableExamplesValidation()) == nil {
			if verr := emb.Validate(context.Background(), openapi3.DisableExamplesValidation()); verr != nil {
				r.Violate("embedded_invalid", "input validates, embedded copy does not: "+verr.Error(), replay)
			}
			r.Dist["input_validates"]++
		}
		// equal to the input after the requested filtering and pruning
		want := gendoc.SpecFilter(d, cfg)
		if !cfg.SkipPrune {
			want = gendoc.SpecPrune(want)
		}
		wantSpec, err := loadSpec(want.JSON())
		if err != nil {
			r.Dist["expected_unloadable"]++
			return
		}
		wantRoot := specJSON(wantSpec)
		normaliseOpIDs(wantRoot, opName)
		normaliseOpIDs(root, opName)
		dropEmptyComponents(wantRoot)
		dropEmptyComponents(root)
		if !reflect.DeepEqual(wantRoot, root) {
			r.Violate("embedded_differs", "embedded spec differs from the filtered and pruned input: "+firstDiff("", wantRoot, root), replay)
		}
		paths, ops, comps := observedPrepared(d, root)
		cases.Add(preparedCase(cfg, d, paths, ops, comps), replay)
		nontrivial := len(parts) > 2 && len(comps) > 0
		r.Count(string(data)+fmt.Sprint(cfg), nontrivial)
		r.Dist[fmt.Sprintf("lines<=%d", bucket(len(parts)))]++
		if i >= 0 && i < 3 {
			r.Sample(map[string]any{"filter": cfg, "embedded_lines": len(parts), "embedded_chars": total, "components": comps, "operations": ops})
		}
	}
	for i := 0; i < n; i++ {
		d, _ := gendoc.Generate(rng, tameOpts())
		decorate(rng, d)
		cfg := gendoc.FilterCfg{}
		switch rng.Intn(4) {
		case 0:
			cfg = randFilterCfg(rng, d)
		case 1:
			cfg.SkipPrune = true
		}
		exclude = nil
		if rng.Intn(2) == 0 {
			var names []string
			for _, c := range d.Comps {
				if c.Kind == "schemas" {
					names = append(names, c.Name)
				}
			}
			if len(names) > 0 {
				exclude = randSubset(rng, names, 2)
			}
			if len(exclude) > 0 {
				r.Dist["exclude_schemas_given"]++
			}
		}
		one(i, d, cfg, false)
	}
	exclude = nil
	// fixed documents, whatever the seed: operations with no, one and several tags (of which a filter lists some), and
	// every single-list filter over them
	{
		mkOp := func(id string, tags []string, schema string) *gendoc.Operation {
			resp := &gendoc.Node{Kind: "responses", Val: &gendoc.Val{Fields: map[string]any{"description": "d"},
				Kids: []gendoc.Kid{{Path: []string{"content", "application/json", "schema"}, Node: &gendoc.Node{Kind: "schemas", Ref: "#/components/schemas/" + schema}, Pos: "response.content.schema"}}}}
			return &gendoc.Operation{Method: "get", ID: id, Tags: tags, Fields: map[string]any{}, Kids: []gendoc.Kid{{Path: []string{"responses", "200"}, Node: resp, Pos: "operation.responses"}}}
		}
		comp := func(n string) *gendoc.Component {
			return &gendoc.Component{Kind: "schemas", Name: n, Body: &gendoc.Node{Kind: "schemas", Val: &gendoc.Val{Fields: map[string]any{"type": "object", "properties": map[string]any{"x": map[string]any{"type": "string"}}}}}}
		}
		fd := &gendoc.Doc{
			Paths: []*gendoc.PathItem{{Path: "/one", Ops: []*gendoc.Operation{mkOp("opOne", []string{"a"}, "SA")}}, {Path: "/two", Ops: []*gendoc.Operation{mkOp("opTwo", []string{"a", "b"}, "SB")}},
				{Path: "/three", Ops: []*gendoc.Operation{mkOp("opThree", []string{"b", "c"}, "SC")}}, {Path: "/none", Ops: []*gendoc.Operation{mkOp("opNone", nil, "SD")}}},
			Comps: []*gendoc.Component{comp("SA"), comp("SB"), comp("SC"), comp("SD")},
		}
		for _, fc := range []gendoc.FilterCfg{{IncludeTags: []string{"a"}}, {ExcludeTags: []string{"b"}}, {IncludeTags: []string{"b"}, ExcludeTags: []string{"c"}},
			{IncludeIDs: []string{"opTwo", "opNone"}}, {ExcludeIDs: []string{"opThree"}}, {IncludeTags: []string{"a", "c"}, SkipPrune: true}} {
			one(-1, fd, fc, false)
			r.Dist["fixed_document_with_several_tags_per_operation"]++
		}
	}
	// boundary lengths: pad a description until the embedded text is an exact multiple of 80
	// characters (no short last line) and until the last line is as short as base64 allows (4).
	for _, target := range []int{0, 4, 76} {
		d, _ := gendoc.Generate(rng, tameOpts())
		var padOp *gendoc.Operation
		for _, pi := range d.Paths {
			if len(pi.Ops) > 0 {
				padOp = pi.Ops[0]
				break
			}
		}
		if padOp == nil {
			continue
		}
		hit := false
		for try := 0; try < 120 && !hit; try++ {
			pad := make([]byte, 1+try)
			for j := range pad {
				pad[j] = byte('a' + rng.Intn(26))
			}
			padOp.Fields["description"] = string(pad)
			one(-1, d, gendoc.FilterCfg{}, true)
			if lastTotal >= 0 && lastTotal%80 == target {
				hit = true
				one(-1, d, gendoc.FilterCfg{}, false)
				r.Dist[fmt.Sprintf("boundary_len_mod_80=%d_hit", target)]++
			}
		}
		if !hit {
			r.Notes = append(r.Notes, fmt.Sprintf("boundary search for embedded length = %d mod 80 found none in 120 tries", target))
		}
	}
	runC19Multi(r)
	cases.WriteTo(r)
	chunks.WriteTo(r)
	r.Rule = "multi-document: three compiled packages (a path item in a file of its own without import mapping; a schema reference into another generated package with import mapping; the referenced package) and a document of more than 1 MiB whose generated GetSwagger() is called (a second time, after an earlier caller changed the document it received), validated and compared with the input with its references resolved; documents of the reference-position grammar decorated with non-ASCII, quoted, multi-line and long (multi-chunk) texts x filter/prune options, generated by codegen.Generate; the swaggerSpec literal is decoded offline (base64, gzip, JSON), loaded and validated with kin-openapi and compared (canonical JSON, operation ids normalised) with the input after the statement's filter and prune; non-trivial = more than two 80-column lines and at least one component kept"
}

// dropEmptyComponents removes empty component maps and an empty components object: an
// absent map and an empty one describe the same document.
func dropEmptyComponents(root map[string]any) {
	comps, ok := root["components"].(map[string]any)
	if !ok {
		return
	}
	for k, v := range comps {
		if m, ok := v.(map[string]any); ok && len(m) == 0 {
			delete(comps, k)
		}
	}
	if len(comps) == 0 {
		delete(root, "components")
	}
}

func bucket(n int) int {
	for _, b := range []int{2, 5, 10, 20, 50, 100} {
		if n <= b {
			return b
		}
	}
	return 1000
}

// firstDiff describes the first difference between two decoded JSON values.
func firstDiff(path string, a, b any) string {
	switch x := a.(type) {
	case map[string]any:
		y, ok := b.(map[string]any)
		if !ok {
			return path + ": object vs other"
		}
		for k, v := range x {
			w, ok := y[k]
			if !ok {
				return path + "/" + k + ": missing in embedded"
			}
			if !reflect.DeepEqual(v, w) {
				return firstDiff(path+"/"+k, v, w)
			}
		}
		for k := range y {
			if _, ok := x[k]; !ok {
				return path + "/" + k + ": only in embedded"
			}
		}
	case []any:
		y, ok := b.([]any)
		if !ok || len(x) != len(y) {
			return path + ": array length differs"
		}
		for i := range x {
			if !reflect.DeepEqual(x[i], y[i]) {
				return firstDiff(fmt.Sprintf("%s/%d", path, i), x[i], y[i])
			}
		}
	}
	return fmt.Sprintf("%s: %v vs %v", path, a, b)
}

// coqNs renders bytes as a list of N.
func coqNs(b []byte) string {
	parts := make([]string, len(b))
	for i, x := range b {
		parts[i] = fmt.Sprint(x)
	}
	return "[" + strings.Join(parts, "; ") + "]"
}
