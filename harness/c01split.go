package main

import (
	"fmt"
	"os"
	"path/filepath"
	"strings"

	"github.com/oapi-codegen/oapi-codegen/v2/pkg/codegen"
)

// Split specifications: document a.yaml refers into b.yaml from every schema position; the packages generated for
// the two documents (b first, a with the import mapping) must type-check together.
const c01SplitB = `openapi: 3.0.3
info: {title: b, version: "1"}
paths: {}
components:
  schemas:
    Inner:
      type: object
      properties:
        v: {type: string}
    Base:
      type: object
      required: [id]
      properties:
        id: {type: integer}
        inner: {$ref: '#/components/schemas/Inner'}
    BaseList:
      type: object
      properties:
        inners:
          type: array
          items: {$ref: '#/components/schemas/Inner'}
    Composite:
      allOf:
        - $ref: '#/components/schemas/Base'
        - type: object
          properties:
            extra: {$ref: '#/components/schemas/Inner'}
    Kind:
      type: string
      enum: [one, two]
`

var c01SplitPositions = map[string]string{
	"property": `    Holder:
      type: object
      properties:
        base: {$ref: 'b.yaml#/components/schemas/Base'}
        kind: {$ref: 'b.yaml#/components/schemas/Kind'}
`,
	"array-items": `    Holder:
      type: object
      properties:
        list:
          type: array
          items: {$ref: 'b.yaml#/components/schemas/Base'}
`,
	"additional-properties": `    Holder:
      type: object
      additionalProperties: {$ref: 'b.yaml#/components/schemas/Inner'}
`,
	"allOf-member-with-local-property-ref": `    Holder:
      allOf:
        - $ref: 'b.yaml#/components/schemas/Base'
        - type: object
          properties:
            own: {type: boolean}
`,
	"allOf-member-with-local-items-ref": `    Holder:
      allOf:
        - $ref: 'b.yaml#/components/schemas/BaseList'
        - type: object
          properties:
            own: {type: boolean}
`,
	"allOf-member-itself-composed": `    Holder:
      allOf:
        - $ref: 'b.yaml#/components/schemas/Composite'
        - type: object
          required: [own]
          properties:
            own: {type: boolean}
`,
	"oneOf-member": `    Holder:
      oneOf:
        - $ref: 'b.yaml#/components/schemas/Base'
        - $ref: 'b.yaml#/components/schemas/Inner'
`,
	"alias": `    Holder:
      $ref: 'b.yaml#/components/schemas/Base'
`,
}

const c01SplitAHead = `openapi: 3.0.3
info: {title: a, version: "1"}
paths:
  /things:
    post:
      operationId: postThing
      parameters:
        - {name: kind, in: query, schema: {$ref: 'b.yaml#/components/schemas/Kind'}}
      requestBody:
        content:
          application/json:
            schema: {$ref: '#/components/schemas/Holder'}
      responses:
        "200":
          description: ok
          content:
            application/json:
              schema: {$ref: 'b.yaml#/components/schemas/Base'}
components:
  schemas:
`

func runC01Split(r *Report, ck *c01Checker) {
	targets := map[string]c01Target{}
	for _, t := range c01Targets() {
		targets[t.Name] = t
	}
	abs, err := filepath.Abs(r.outDir)
	must(err)
	for pos, holder := range c01SplitPositions {
		dir := filepath.Join(abs, "split", strings.ReplaceAll(pos, "-", "_"))
		must(os.MkdirAll(dir, 0o755))
		must(os.WriteFile(filepath.Join(dir, "b.yaml"), []byte(c01SplitB), 0o644))
		a := filepath.Join(dir, "a.yaml")
		must(os.WriteFile(a, []byte(c01SplitAHead+holder), 0o644))
		for _, tn := range []string{"models", "chi", "client"} {
			tg, ok := targets[tn]
			if !ok {
				continue
			}
			spec, err := loadSpecFile(a)
			if err != nil {
				r.Violate("split_document_unloadable", pos+": "+err.Error(), nil)
				break
			}
			mapping, depMsg := ck.multiDoc(a, tg, map[string]bool{a: true})
			cfg := codegen.Configuration{PackageName: "gen", Generate: tg.Gen, ImportMapping: mapping}
			var res gateResult
			if depMsg != "" {
				res = gateResult{Stage: "dependency", Msg: depMsg}
			} else {
				res = ck.gate(spec, cfg, "c01/split")
			}
			r.Count("split/"+pos+"@"+tn, true)
			r.Dist["family=split_documents"]++
			if res.Stage == "ok" {
				continue
			}
			r.Violate("split/"+pos, fmt.Sprintf("split specification, reference from %s @ %s: %s: %s", pos, tn, res.Stage, trunc(lastLine(res.Msg), 300)),
				map[string]any{"a.yaml": c01SplitAHead + holder, "b.yaml": c01SplitB, "target": tn, "at": res.Snippet, "diags": res.Diags})
		}
	}
}
