package main

import (
	"context"
	"encoding/base64"
	"encoding/json"
	"fmt"
	"math/rand"
	"net/http"
	"regexp"
	"sort"
	"strings"

	"github.com/oapi-codegen/oapi-codegen/v2/pkg/codegen"
	"github.com/oapi-codegen/oapi-codegen/v2/pkg/securityprovider"

	"verif/harness/gendoc"
)

type secReq map[string][]string

type secOp struct {
	id  string
	sec *[]secReq // nil = inherit
}

func secSpec(schemes []string, global []secReq, ops []secOp) []byte {
	ss := map[string]any{}
	for i, s := range schemes {
		switch i % 4 {
		case 0:
			ss[s] = map[string]any{"type": "http", "scheme": "bearer"}
		case 1:
			ss[s] = map[string]any{"type": "http", "scheme": "basic"}
		case 2:
			ss[s] = map[string]any{"type": "apiKey", "in": "header", "name": "X-Key"}
		default:
			ss[s] = map[string]any{"type": "oauth2", "flows": map[string]any{"implicit": map[string]any{"authorizationUrl": "https://e.x/a", "scopes": map[string]any{"r": "read", "w": "write", "admin": "a"}}}}
		}
	}
	paths := map[string]any{}
	for _, o := range ops {
		op := map[string]any{"operationId": o.id, "responses": map[string]any{"204": map[string]any{"description": "ok"}}}
		if o.sec != nil {
			l := []any{}
			for _, r := range *o.sec {
				l = append(l, r)
			}
			op["security"] = l
		}
		paths["/"+o.id] = map[string]any{"get": op}
	}
	root := map[string]any{"openapi": "3.0.3", "info": map[string]any{"title": "sec", "version": "1"}, "paths": paths, "components": map[string]any{"securitySchemes": ss}}
	if global != nil {
		root["security"] = global
	}
	b, _ := json.Marshal(root)
	return b
}

func coqReqs(l []secReq) string {
	var rs []string
	for _, r := range l {
		var ps []string
		ks := make([]string, 0, len(r))
		for k := range r {
			ks = append(ks, k)
		}
		sort.Sort(sort.Reverse(sort.StringSlice(ks))) // deliberately not the sorted order
		for _, k := range ks {
			ps = append(ps, "("+gendoc.CoqStr(codegen.SanitizeGoIdentity(k))+", "+gendoc.CoqStrList(r[k])+")")
		}
		rs = append(rs, "["+strings.Join(ps, "; ")+"]")
	}
	return "[" + strings.Join(rs, "; ") + "]"
}

var scopeConstRe = regexp.MustCompile(`(?m)^\s*(\w+Scopes)\s*=\s*"([^"]*)\.Scopes"`)

func runC18(r *Report, rng *rand.Rand, thorough bool) {
	// ---------------- server side
	nameSets := [][]string{{"bearerAuth", "basicAuth", "apiKey", "oauth"}, {"bearer-auth", "basic_auth", "api.key", "o auth"}}
	scopePool := []string{"r", "w", "admin"}
	randReqs := func(schemes []string) []secReq {
		n := rng.Intn(3)
		var out []secReq
		used := map[string]bool{}
		// half of the lists let several alternatives name one scheme with scope lists of their own (an OR of requirement
		// objects): every (alternative, scheme) pair is described, in document order, so the key ends up holding the scopes
		// of the last alternative that names the scheme (C18_scopes_exact: no later definition uses the key)
		repeat := rng.Intn(2) == 0
		if repeat {
			n = 2 + rng.Intn(2)
		}
		for i := 0; i < n; i++ {
			req := secReq{}
			m := 1 + rng.Intn(2)
			for j := 0; j < m; j++ {
				s := schemes[rng.Intn(len(schemes))]
				if used[s] && !repeat {
					continue // in the other half a scheme occurs at most once per operation
				}
				used[s] = true
				var sc []string
				for _, x := range scopePool {
					if rng.Intn(2) == 0 {
						sc = append(sc, x)
					}
				}
				if sc == nil {
					sc = []string{}
				}
				req[s] = sc
			}
			if len(req) > 0 {
				out = append(out, req)
			}
		}
		// "- {}": an empty alternative (authentication optional) next to real ones contributes no scheme and takes none away
		if len(out) > 0 && rng.Intn(3) == 0 {
			at := rng.Intn(len(out) + 1)
			out = append(out[:at], append([]secReq{{}}, out[at:]...)...)
		}
		if out == nil {
			out = []secReq{}
		}
		return out
	}
	type variant struct {
		name    string
		fw      string
		schemes []string
		global  []secReq
		ops     []secOp
	}
	var vars []variant
	var pkgs []LabPkg
	nDocs := 2
	if thorough {
		nDocs = 12
	}
	for d := 0; d < nDocs; d++ {
		for si, schemes := range nameSets {
			var global []secReq
			if rng.Intn(4) != 0 {
				global = randReqs(schemes)
			}
			ops := []secOp{{id: "inherits"}}
			empty := []secReq{}
			ops = append(ops, secOp{id: "clears", sec: &empty})
			for i := 0; i < 4; i++ {
				rq := randReqs(schemes)
				ops = append(ops, secOp{id: fmt.Sprintf("own%d", i), sec: &rq})
			}
			spec := secSpec(schemes, global, ops)
			for _, fw := range Frameworks {
				name := fmt.Sprintf("c18_d%d_n%d_%s", d, si, fw)
				vars = append(vars, variant{name, fw, schemes, global, ops})
				pkgs = append(pkgs, LabPkg{Name: name, Spec: spec, FW: fw, Cfg: codegen.Configuration{Generate: fwGenerate(fw, codegen.GenerateOptions{Models: true})}})
			}
		}
	}
	lab, err := BuildLab(labRoot, "c18", pkgs)
	if err != nil {
		r.Violate("lab_build_failed", err.Error(), nil)
		return
	}
	pcases := NewCases("cases_C18_published", "From V Require Import Model.Security Corr.Eval.",
		"list (string * string) * list requirement * option (list requirement) * list (string * list string)", "mismatches_published")
	var scenarios []map[string]any
	type meta struct {
		v  variant
		op secOp
	}
	metas := map[string]meta{}
	for _, v := range vars {
		st := lab.Status[v.name]
		if !st.OK {
			sig := "lab_package_broken:" + v.fw
			if v.schemes[0] != "bearerAuth" {
				sig += "/names_needing_sanitising"
			}
			r.Violate(sig, fmt.Sprintf("package %s does not build: %s %s", v.name, st.GenerateError, trunc(st.CompileError, 400)), map[string]any{"framework": v.fw, "schemes": v.schemes})
			continue
		}
		for _, o := range v.ops {
			id := v.name + "/" + o.id
			// flavours whose per-operation middlewares run inside the wrapper get one: it must find the scopes in the request
			// context too (that is what an authenticating middleware reads)
			nmw := 0
			if v.fw == "chi" || v.fw == "gorilla" || v.fw == "stdhttp" || v.fw == "gin" {
				nmw = 1
			}
			scenarios = append(scenarios, map[string]any{"id": id, "pkg": v.name, "opts": map[string]any{"short_circuit": -1, "strict_short_circuit": -1, "middlewares": nmw}, "req": map[string]any{"method": "GET", "target": "/" + o.id}})
			metas[id] = meta{v, o}
		}
	}
	results, err := lab.Run(scenarios)
	if err != nil {
		r.Violate("lab_run_failed", err.Error(), nil)
		return
	}
	for _, sc := range scenarios {
		id := sc["id"].(string)
		m := metas[id]
		res := results[id]
		replay := map[string]any{"framework": m.v.fw, "schemes": m.v.schemes, "global": m.v.global, "operation": m.op.id, "operation_security": m.op.sec}
		var hev, mwev *LabEvent
		if res != nil {
			for i := range res.Trace {
				switch res.Trace[i].Kind {
				case "handler":
					hev = &res.Trace[i]
				case "mw":
					mwev = &res.Trace[i]
				}
			}
		}
		if res == nil || res.Err != "" || hev == nil || len(res.Trace) > 2 {
			r.Violate("scenario_error", id, replay)
			continue
		}
		// constants of the generated file: scheme -> constant
		keyMap := map[string]string{}
		for _, mm := range scopeConstRe.FindAllStringSubmatch(lab.Status[m.v.name].Code, -1) {
			keyMap[mm[2]] = mm[1]
		}
		var got map[string][]string
		_ = json.Unmarshal(hev.Data["$scopes"], &got)
		eff := m.v.global
		if m.op.sec != nil {
			eff = *m.op.sec
		}
		want := map[string][]string{}
		for _, rq := range eff {
			for s, sc := range rq {
				want[keyMap[codegen.SanitizeGoIdentity(s)]] = sc
			}
		}
		r.Count(id+fmt.Sprint(eff), len(eff) > 0 || m.op.sec != nil)
		r.Dist["fw="+m.v.fw]++
		seenScheme := map[string]int{}
		for _, rq := range eff {
			for s := range rq {
				seenScheme[s]++
			}
		}
		for _, c := range seenScheme {
			if c > 1 {
				r.Dist["scheme_named_by_several_alternatives"]++
				break
			}
		}
		if m.op.sec == nil {
			r.Dist["inherits_global"]++
		} else if len(*m.op.sec) == 0 {
			r.Dist["clears"]++
		}
		if len(r.Samples) < 3 && len(eff) > 1 {
			r.Sample(map[string]any{"framework": m.v.fw, "effective_requirements": eff, "context_seen_by_handler": got})
		}
		ok := len(got) == len(want)
		for k, v := range want {
			g, present := got[k]
			if !present || !eqStrings(g, v) {
				ok = false
			}
		}
		if !ok {
			r.Violate("scopes_published/"+m.v.fw, fmt.Sprintf("%s %s: effective requirements %v, handler saw %v", m.v.fw, m.op.id, eff, got), replay)
		}
		if m.v.fw == "chi" || m.v.fw == "gorilla" || m.v.fw == "stdhttp" || m.v.fw == "gin" {
			r.Dist["seen_by_operation_middleware"]++
			var mgot map[string][]string
			if mwev != nil {
				_ = json.Unmarshal(mwev.Data["$scopes"], &mgot)
			}
			mok := mwev != nil && len(mgot) == len(want)
			for k, v := range want {
				if g, present := mgot[k]; !present || !eqStrings(g, v) {
					mok = false
				}
			}
			if !mok {
				r.Violate("scopes_published_to_middleware/"+m.v.fw, fmt.Sprintf("%s %s: effective requirements %v, the per-operation middleware saw %v (handler saw %v)", m.v.fw, m.op.id, eff, mgot, got), replay)
			}
		}
		// model case
		var km []string
		ks := make([]string, 0, len(keyMap))
		for k := range keyMap {
			ks = append(ks, k)
		}
		sort.Strings(ks)
		for _, k := range ks {
			km = append(km, "("+gendoc.CoqStr(k)+", "+gendoc.CoqStr(keyMap[k])+")")
		}
		opTerm := "None"
		if m.op.sec != nil {
			opTerm = "(Some " + coqReqs(*m.op.sec) + ")"
		}
		var obs []string
		gk := make([]string, 0, len(got))
		for k := range got {
			gk = append(gk, k)
		}
		sort.Strings(gk)
		for _, k := range gk {
			obs = append(obs, "("+gendoc.CoqStr(k)+", "+gendoc.CoqStrList(got[k])+")")
		}
		glob := m.v.global
		pcases.Add(fmt.Sprintf("([%s], %s, %s, [%s])", strings.Join(km, "; "), coqReqs(glob), opTerm, strings.Join(obs, "; ")), replay)
	}
	pcases.WriteTo(r)

	// ---------------- client side: the providers of pkg/securityprovider
	icases := NewCases("cases_C18_intercept", "From V Require Import Model.Security Corr.Eval.", "provider * request * request", "mismatches_intercept")
	// incl. texts whose base64 form (after "user:") needs the two symbols that differ between the standard and the URL alphabet
	// (incl. credentials that begin with the words the providers themselves put in front: the credential is attached as given)
	creds := []string{"Bearer abc", "Bearer ", "Basic dXNlcjpwYXNz", "bearer lower", "tok", "a b", "p@ss:w0rd", "ünï", "x=y&z", "a~cret", "p?ssword", "пароль", ">>>???~~~", "", "very-long-" + strings.Repeat("k", 40)}
	nReq := 5*len(creds) + 60
	if thorough {
		nReq = 2000
	}
	for i := 0; i < nReq; i++ {
		target := "http://lab/p"
		var qp [][2]string
		for j := rng.Intn(3); j > 0; j-- {
			qp = append(qp, [2]string{[]string{"a", "b", "key"}[rng.Intn(3)], creds[rng.Intn(len(creds)-1)]})
		}
		if len(qp) > 0 {
			var parts []string
			for _, p := range qp {
				parts = append(parts, urlQ(p[0])+"="+urlQ(p[1]))
			}
			target += "?" + strings.Join(parts, "&")
		}
		mk := func() *http.Request {
			req, _ := http.NewRequest("GET", target, nil)
			return req
		}
		req := mk()
		hdrs := map[string][]string{}
		if rng.Intn(2) == 0 {
			req.Header.Set("Authorization", "Old")
			hdrs["Authorization"] = []string{"Old"}
		}
		if rng.Intn(2) == 0 {
			req.Header.Add("X-Key", "k0")
			hdrs["X-Key"] = []string{"k0"}
		}
		if rng.Intn(2) == 0 {
			req.Header.Set("Accept", "application/json")
			hdrs["Accept"] = []string{"application/json"}
		}
		var cks [][2]string
		if rng.Intn(2) == 0 {
			req.AddCookie(&http.Cookie{Name: "sid", Value: "s1"})
			cks = append(cks, [2]string{"sid", "s1"})
		}
		if rng.Intn(2) == 0 { // a cookie of the name the cookie provider uses, with another value (stale key, key rotation)
			req.AddCookie(&http.Cookie{Name: "auth", Value: "stale"})
			cks = append(cks, [2]string{"auth", "stale"})
		}
		// every provider meets every credential of the pool (the first 5 x len(creds) requests), then random pairs
		cred := creds[rng.Intn(len(creds))]
		kind := rng.Intn(5)
		if i < 5*len(creds) {
			cred, kind = creds[i/5], i%5
		}
		var prov interface {
			Intercept(context.Context, *http.Request) error
		}
		var pterm, what string
		switch kind {
		case 0:
			user := []string{"u", "user name", "ünï", "", "bob", "joe", "анна"}[rng.Intn(7)] // no ':' (RFC 7617)
			prov, _ = securityprovider.NewSecurityProviderBasicAuth(user, cred)
			enc := "Basic " + base64.StdEncoding.EncodeToString([]byte(user+":"+cred))
			pterm, what = "Basic "+gendoc.CoqStr(enc), "basic"
		case 1:
			prov, _ = securityprovider.NewSecurityProviderBearerToken(cred)
			pterm, what = "Bearer "+gendoc.CoqStr(cred), "bearer"
		case 2:
			prov, _ = securityprovider.NewSecurityProviderApiKey("header", "X-Key", cred)
			pterm, what = "ApiKeyHeader "+gendoc.CoqStr("X-Key")+" "+gendoc.CoqStr(cred), "apikey-header"
		case 3:
			prov, _ = securityprovider.NewSecurityProviderApiKey("query", "key", cred)
			pterm, what = "ApiKeyQuery "+gendoc.CoqStr("key")+" "+gendoc.CoqStr(cred), "apikey-query"
		default:
			cv := "ck1"
			prov, _ = securityprovider.NewSecurityProviderApiKey("cookie", "auth", cv)
			cred = cv
			pterm, what = "ApiKeyCookie "+gendoc.CoqStr("auth")+" "+gendoc.CoqStr(cv), "apikey-cookie"
		}
		if err := prov.Intercept(context.Background(), req); err != nil {
			r.Violate("provider_error", err.Error(), nil)
			continue
		}
		r.Count(fmt.Sprintf("prov/%s/%s/%v/%v", what, target, hdrs, cks), len(hdrs)+len(qp)+len(cks) > 0)
		r.Dist["provider="+what]++
		// observed request
		gotQ, _ := decodeQuery(req.URL.RawQuery)
		var gotC [][2]string
		for _, c := range req.Cookies() {
			gotC = append(gotC, [2]string{c.Name, c.Value})
		}
		before := fmt.Sprintf("{| headers := %s; query := %s; cookies := %s |}", coqHeaders(hdrs), coqPairs(qp), coqPairs(cks))
		gh := map[string][]string{}
		for k, v := range req.Header {
			if k != "Cookie" {
				gh[k] = v
			}
		}
		after := fmt.Sprintf("{| headers := %s; query := %s; cookies := %s |}", coqHeaders(gh), coqPairs(gotQ), coqPairs(gotC))
		replay := map[string]any{"provider": what, "credential": cred, "request_before": map[string]any{"url": target, "headers": hdrs, "cookies": cks}}
		if gendoc.CoqSafe(cred) && gendoc.CoqSafe(pterm) {
			icases.Add(fmt.Sprintf("(%s, %s, %s)", pterm, before, after), replay)
		}
		// oracle: frame
		for k, v := range hdrs {
			if (what == "basic" || what == "bearer") && k == "Authorization" {
				continue
			}
			g := req.Header[k]
			if what == "apikey-header" && k == "X-Key" {
				if len(g) != len(v)+1 || g[len(g)-1] != cred {
					r.Violate("provider_frame", fmt.Sprintf("%s: header %s = %v", what, k, g), replay)
				}
				continue
			}
			if !eqStrings(g, v) {
				r.Violate("provider_frame", fmt.Sprintf("%s changed header %s: %v -> %v", what, k, v, g), replay)
			}
		}
		wantQ := append([][2]string(nil), qp...)
		if what == "apikey-query" {
			wantQ = append(wantQ, [2]string{"key", cred})
		}
		if !eqPairs(sortPairsByKey(gotQ), sortPairsByKey(wantQ)) {
			r.Violate("provider_frame", fmt.Sprintf("%s: query %v, want %v", what, gotQ, wantQ), replay)
		}
		wantC := append([][2]string(nil), cks...)
		if what == "apikey-cookie" {
			wantC = append(wantC, [2]string{"auth", cred})
		}
		if !eqPairs(gotC, wantC) {
			r.Violate("provider_frame", fmt.Sprintf("%s: cookies %v, want %v", what, gotC, wantC), replay)
		}
		switch what {
		case "bearer":
			if req.Header.Get("Authorization") != "Bearer "+cred {
				r.Violate("provider_credential", "bearer token not attached", replay)
			}
		case "basic":
			if _, p, ok := req.BasicAuth(); !ok || p != cred {
				r.Violate("provider_credential", "basic credentials not attached", replay)
			}
		}
	}
	icases.WriteTo(r)
	r.Rule = "server: documents with 4 security schemes (plain names and names needing sanitising) x global requirements (absent, empty, one or several alternatives, incl. an empty alternative) x operations that inherit, clear (empty list) or override with AND/OR combinations and scope lists, generated for 7 frameworks; the request context seen by the stub handler (and, in chi / gorilla / std-http / gin, by a per-operation middleware) must hold exactly the scopes of the schemes of the effective requirements under the generated key constants. client: every provider of pkg/securityprovider on requests with pre-existing query parameters, headers and cookies and varied credentials; non-trivial = non-empty effective requirements / pre-existing request parts"
}

func urlQ(s string) string {
	return strings.NewReplacer(" ", "%20", "&", "%26", "=", "%3D", "@", "%40", ":", "%3A", "ü", "%C3%BC", "ï", "%C3%AF", "n", "n").Replace(s)
}

func coqHeaders(h map[string][]string) string {
	ks := make([]string, 0, len(h))
	for k := range h {
		ks = append(ks, k)
	}
	sort.Strings(ks)
	var parts []string
	for _, k := range ks {
		parts = append(parts, "("+gendoc.CoqStr(k)+", "+gendoc.CoqStrList(h[k])+")")
	}
	return "[" + strings.Join(parts, "; ") + "]"
}
