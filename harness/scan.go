package main

import (
	"bytes"
	"fmt"
	"go/ast"
	"go/printer"
	"go/token"
	"go/types"
	"os"
	"path/filepath"
	"sort"
	"strconv"
	"strings"
)

// ---- scanners over /repo/pkg/codegen (mechanism T of DESIGN.md): the Coq files under
// coq/Gen are regenerated from the source on every run.

type scanned struct {
	fset  *token.FileSet
	files []*ast.File
	pkg   *types.Package
	info  *types.Info
}

func scanCodegen(repo string) (*scanned, error) {
	fset := token.NewFileSet()
	dir := filepath.Join(repo, "pkg", "codegen")
	files, err := parseDir(fset, dir, false)
	if err != nil {
		return nil, err
	}
	exports, err := exportMap(repo, "", "./pkg/codegen")
	if err != nil {
		return nil, err
	}
	pkg, info, errs := typeCheckFiles(fset, files, "github.com/oapi-codegen/oapi-codegen/v2/pkg/codegen", exports)
	if len(errs) > 0 {
		return nil, fmt.Errorf("type errors in pkg/codegen: %v", errs[0])
	}
	return &scanned{fset, files, pkg, info}, nil
}

func (s *scanned) src(n ast.Node) string {
	var b bytes.Buffer
	_ = printer.Fprint(&b, s.fset, n)
	return strings.Join(strings.Fields(b.String()), " ")
}

func (s *scanned) pos(n ast.Node) string {
	p := s.fset.Position(n.Pos())
	return fmt.Sprintf("%s:%d", filepath.Base(p.Filename), p.Line)
}

// ---------------------------------------------------------------- map range sites (C02)

type rangeSite struct {
	Func, Expr, Where string
	Ordinal           int
	Features          []string
	Class             string
}

func rootIdent(e ast.Expr) *ast.Ident {
	for {
		switch x := e.(type) {
		case *ast.Ident:
			return x
		case *ast.SelectorExpr:
			e = x.X
		case *ast.IndexExpr:
			e = x.X
		case *ast.StarExpr:
			e = x.X
		case *ast.ParenExpr:
			e = x.X
		default:
			return nil
		}
	}
}

func (s *scanned) mapRangeSites() []rangeSite {
	var out []rangeSite
	for _, f := range s.files {
		for _, d := range f.Decls {
			// function literals in the initialisers of package-level variables run once per process, at start-up: a map
			// range there fixes an order for the whole run (site "init:<variable>")
			if gd, ok := d.(*ast.GenDecl); ok && gd.Tok == token.VAR {
				for _, sp := range gd.Specs {
					vs, ok := sp.(*ast.ValueSpec)
					if !ok || len(vs.Names) == 0 {
						continue
					}
					for _, val := range vs.Values {
						ast.Inspect(val, func(n ast.Node) bool {
							fl, ok := n.(*ast.FuncLit)
							if !ok {
								return true
							}
							synth := &ast.FuncDecl{Name: ast.NewIdent("init:" + vs.Names[0].Name), Body: fl.Body}
							ord := 0
							ast.Inspect(fl.Body, func(m ast.Node) bool {
								rs, ok := m.(*ast.RangeStmt)
								if !ok {
									return true
								}
								tv, ok := s.info.Types[rs.X]
								if !ok {
									return true
								}
								if _, isMap := tv.Type.Underlying().(*types.Map); !isMap {
									return true
								}
								site := rangeSite{Func: synth.Name.Name, Expr: s.src(rs.X), Where: s.pos(rs), Ordinal: ord}
								ord++
								site.Features = s.bodyFeatures(synth, rs)
								out = append(out, site)
								return true
							})
							return false
						})
					}
				}
				continue
			}
			fd, ok := d.(*ast.FuncDecl)
			if !ok || fd.Body == nil {
				continue
			}
			name := fd.Name.Name
			if fd.Recv != nil && len(fd.Recv.List) > 0 {
				name = s.src(fd.Recv.List[0].Type) + "." + name
			}
			ord := 0
			ast.Inspect(fd.Body, func(n ast.Node) bool {
				rs, ok := n.(*ast.RangeStmt)
				if !ok {
					return true
				}
				tv, ok := s.info.Types[rs.X]
				if !ok {
					return true
				}
				if _, isMap := tv.Type.Underlying().(*types.Map); !isMap {
					return true
				}
				site := rangeSite{Func: name, Expr: s.src(rs.X), Where: s.pos(rs), Ordinal: ord}
				ord++
				site.Features = s.bodyFeatures(fd, rs)
				out = append(out, site)
				return true
			})
		}
	}
	return out
}

// bodyFeatures summarises how the loop body could let the iteration order escape.
func (s *scanned) bodyFeatures(fd *ast.FuncDecl, rs *ast.RangeStmt) []string {
	feat := map[string]bool{}
	var appended []string
	ast.Inspect(rs.Body, func(n ast.Node) bool {
		switch x := n.(type) {
		case *ast.BranchStmt:
			if x.Tok == token.BREAK {
				feat["break"] = true
			}
		case *ast.ReturnStmt:
			feat["return"] = true
		case *ast.CallExpr:
			if id, ok := x.Fun.(*ast.Ident); ok && id.Name == "append" && len(x.Args) > 0 {
				feat["append"] = true
				appended = append(appended, s.src(x.Args[0]))
			}
		case *ast.AssignStmt:
			for _, l := range x.Lhs {
				if ix, ok := l.(*ast.IndexExpr); ok {
					if tv, ok := s.info.Types[ix.X]; ok {
						if _, isMap := tv.Type.Underlying().(*types.Map); isMap {
							feat["map-store"] = true
							continue
						}
					}
				}
				if id, ok := l.(*ast.Ident); ok && id.Name == "_" {
					continue
				}
				if x.Tok == token.DEFINE {
					continue
				}
				feat["assign"] = true
			}
		case *ast.IncDecStmt:
			feat["count"] = true
		}
		return true
	})
	// is every appended slice sorted later in the function?
	if feat["append"] {
		sortedAll := true
		for _, a := range appended {
			found := false
			ast.Inspect(fd.Body, func(n ast.Node) bool {
				ce, ok := n.(*ast.CallExpr)
				if !ok || ce.Pos() < rs.End() {
					return true
				}
				if sel, ok := ce.Fun.(*ast.SelectorExpr); ok {
					if id, ok := sel.X.(*ast.Ident); ok && id.Name == "sort" && len(ce.Args) > 0 && s.src(ce.Args[0]) == a {
						found = true
					}
				}
				return true
			})
			if !found {
				sortedAll = false
			}
		}
		if sortedAll {
			feat["append-then-sort"] = true
			delete(feat, "append")
		}
	}
	var out []string
	for k := range feat {
		out = append(out, k)
	}
	sort.Strings(out)
	return out
}

// ---------------------------------------------------------------- package-level variables (C17)

type globalVar struct {
	Name    string
	Class   string
	Details []string
}

func (s *scanned) funcOf(n ast.Node) *ast.FuncDecl {
	for _, f := range s.files {
		for _, d := range f.Decls {
			if fd, ok := d.(*ast.FuncDecl); ok && fd.Pos() <= n.Pos() && n.End() <= fd.End() {
				return fd
			}
		}
	}
	return nil
}

// globals classifies every package-level variable of pkg/codegen by where it is written.
func (s *scanned) globals() []globalVar {
	vars := map[types.Object]*globalVar{}
	var order []types.Object
	fieldVars := map[string]*globalVar{} // "var.field" for struct-typed variables
	structVar := map[types.Object]bool{}
	for _, f := range s.files {
		for _, d := range f.Decls {
			gd, ok := d.(*ast.GenDecl)
			if !ok || gd.Tok != token.VAR {
				continue
			}
			for _, sp := range gd.Specs {
				for _, id := range sp.(*ast.ValueSpec).Names {
					if id.Name == "_" {
						continue
					}
					obj := s.info.Defs[id]
					vars[obj] = &globalVar{Name: id.Name}
					order = append(order, obj)
					if st, ok := obj.Type().Underlying().(*types.Struct); ok {
						structVar[obj] = true
						for i := 0; i < st.NumFields(); i++ {
							fieldVars[id.Name+"."+st.Field(i).Name()] = &globalVar{Name: id.Name + "." + st.Field(i).Name()}
						}
					}
				}
			}
		}
	}
	// call graph over package functions (static calls + functions used as values are
	// conservatively treated as reachable from Generate)
	calls := map[string]map[string]bool{}
	asValue := map[string]bool{}
	reads := map[string]map[types.Object]bool{}
	type wsite struct {
		fn      string
		stmt    ast.Node
		toplvl  int // index among the top-level statements of the function body, -1 if nested
		desc    string
		element bool
	}
	writes := map[types.Object][]wsite{}
	fwrites := map[string][]wsite{}
	for _, f := range s.files {
		for _, d := range f.Decls {
			fd, ok := d.(*ast.FuncDecl)
			if !ok || fd.Body == nil {
				continue
			}
			fn := fd.Name.Name
			if fd.Recv != nil {
				fn = s.src(fd.Recv.List[0].Type) + "." + fn
			}
			calls[fn] = map[string]bool{}
			reads[fn] = map[types.Object]bool{}
			top := map[ast.Stmt]int{}
			for i, st := range fd.Body.List {
				top[st] = i
			}
			lhs := map[*ast.Ident]bool{}
			record := func(st ast.Stmt, target ast.Expr, what string) {
				id := rootIdent(target)
				if id == nil {
					return
				}
				obj := s.info.Uses[id]
				if _, ok := vars[obj]; !ok {
					return
				}
				idx := -1
				if i, ok := top[st]; ok {
					idx = i
				}
				_, whole := target.(*ast.Ident)
				if whole {
					lhs[id] = true
				}
				if structVar[obj] && !whole {
					// attribute the write to the first-level field
					e := target
					var first *ast.SelectorExpr
					for {
						if se, ok := e.(*ast.SelectorExpr); ok {
							if x, ok := se.X.(*ast.Ident); ok && x == id {
								first = se
								break
							}
							e = se.X
						} else if ie, ok := e.(*ast.IndexExpr); ok {
							e = ie.X
						} else {
							break
						}
					}
					if first != nil {
						key := id.Name + "." + first.Sel.Name
						lhs[id] = true
						fwrites[key] = append(fwrites[key], wsite{fn, st, idx, fmt.Sprintf("%s %s in %s (%s)", what, s.src(target), fn, s.pos(st)), ast.Expr(first) != target})
						return
					}
				}
				writes[obj] = append(writes[obj], wsite{fn, st, idx, fmt.Sprintf("%s %s in %s (%s)", what, s.src(target), fn, s.pos(st)), !whole})
			}
			var walk func(n ast.Node, st ast.Stmt)
			ast.Inspect(fd.Body, func(n ast.Node) bool {
				switch x := n.(type) {
				case *ast.AssignStmt:
					if x.Tok != token.DEFINE {
						for _, l := range x.Lhs {
							record(s.topStmt(fd, x), l, "assignment to")
						}
					}
				case *ast.IncDecStmt:
					record(s.topStmt(fd, x), x.X, "inc/dec of")
				case *ast.UnaryExpr:
					if x.Op == token.AND {
						record(s.topStmt(fd, x), x.X, "address taken of")
					}
				case *ast.CallExpr:
					if id, ok := x.Fun.(*ast.Ident); ok {
						if id.Name == "delete" && len(x.Args) > 0 {
							record(s.topStmt(fd, x), x.Args[0], "delete from")
						}
						if o, ok := s.info.Uses[id].(*types.Func); ok && o.Pkg() == s.pkg {
							calls[fn][id.Name] = true
						}
					}
					if sel, ok := x.Fun.(*ast.SelectorExpr); ok {
						if o, ok := s.info.Uses[sel.Sel].(*types.Func); ok && o.Pkg() == s.pkg {
							calls[fn][s.recvName(o)+sel.Sel.Name] = true
						}
					}
				}
				return true
			})
			_ = walk
			ast.Inspect(fd.Body, func(n ast.Node) bool {
				id, ok := n.(*ast.Ident)
				if !ok {
					return true
				}
				obj := s.info.Uses[id]
				if _, ok := vars[obj]; ok && !lhs[id] {
					reads[fn][obj] = true
				}
				if o, ok := obj.(*types.Func); ok && o.Pkg() == s.pkg {
					asValue[s.recvName(o)+id.Name] = true
				}
				return true
			})
		}
	}
	// functions reachable from Generate
	reach := map[string]bool{}
	var visit func(string)
	visit = func(fn string) {
		if reach[fn] {
			return
		}
		reach[fn] = true
		for c := range calls[fn] {
			visit(c)
		}
	}
	visit("Generate")
	for fn := range asValue {
		visit(fn)
	}
	readsTrans := func(fn string, obj types.Object) bool {
		seen := map[string]bool{}
		var rec func(string) bool
		rec = func(f string) bool {
			if seen[f] {
				return false
			}
			seen[f] = true
			if reads[f][obj] {
				return true
			}
			for c := range calls[f] {
				if rec(c) {
					return true
				}
			}
			return false
		}
		return rec(fn)
	}
	// the body of Generate, statement by statement
	var gen *ast.FuncDecl
	for _, f := range s.files {
		for _, d := range f.Decls {
			if fd, ok := d.(*ast.FuncDecl); ok && fd.Name.Name == "Generate" && fd.Recv == nil {
				gen = fd
			}
		}
	}
	var out []globalVar
	type item struct {
		g   *globalVar
		ws  []wsite
		obj types.Object
	}
	var items []item
	for _, obj := range order {
		if structVar[obj] {
			for key, g := range fieldVars {
				if strings.HasPrefix(key, vars[obj].Name+".") {
					items = append(items, item{g, fwrites[key], obj})
				}
			}
			if len(writes[obj]) == 0 {
				continue
			}
		}
		items = append(items, item{vars[obj], writes[obj], obj})
	}
	for _, it := range items {
		g, ws, obj := it.g, it.ws, it.obj
		var inGenerate, inInit, elsewhereReach, elsewhereOther []wsite
		for _, w := range ws {
			switch {
			case w.fn == "Generate":
				inGenerate = append(inGenerate, w)
			case w.fn == "init":
				inInit = append(inInit, w)
			case reach[w.fn]:
				elsewhereReach = append(elsewhereReach, w)
			default:
				elsewhereOther = append(elsewhereOther, w)
			}
			g.Details = append(g.Details, w.desc)
		}
		switch {
		case len(elsewhereReach) > 0:
			g.Class = "WrittenDuringGeneration"
		case len(inGenerate) == 0 && len(elsewhereOther) == 0:
			g.Class = "InitOnly"
		case len(inGenerate) == 0:
			g.Class = "SetterOnly"
		default:
			// first event in Generate's top-level statements: unconditional whole write, or
			// something else (a read, a nested write)?
			g.Class = "ConditionalReset"
			if gen != nil {
				for i, st := range gen.Body.List {
					wroteWhole, wroteNested, wroteElem := false, false, false
					for _, w := range inGenerate {
						if w.stmt == st && w.toplvl == i {
							if w.element {
								wroteElem = true
							} else {
								wroteWhole = true
							}
						} else if s.topStmt(gen, w.stmt) == st {
							wroteNested = true
						}
					}
					readsHere := s.stmtReads(st, obj, readsTrans)
					if wroteWhole && !s.rhsReads(st, obj, readsTrans) {
						g.Class = "ResetEveryCall"
						break
					}
					if wroteElem && !wroteNested {
						// unconditional store of one element/field (e.g. TemplateFunctions["opts"]):
						// the other elements are never written, this one is rewritten every call
						allElem := true
						for _, w := range inGenerate {
							if !w.element {
								allElem = false
							}
						}
						if allElem && len(inGenerate) == 1 {
							g.Class = "ResetEveryCall"
						}
						break
					}
					if wroteNested || readsHere {
						break
					}
				}
			}
		}
		out = append(out, *g)
	}
	sort.Slice(out, func(i, j int) bool { return out[i].Name < out[j].Name })
	return out
}

func (s *scanned) recvName(f *types.Func) string {
	sig := f.Type().(*types.Signature)
	if sig.Recv() == nil {
		return ""
	}
	t := sig.Recv().Type()
	if p, ok := t.(*types.Pointer); ok {
		return "*" + p.Elem().(*types.Named).Obj().Name() + "."
	}
	if n, ok := t.(*types.Named); ok {
		return n.Obj().Name() + "."
	}
	return ""
}

// topStmt returns the top-level statement of fd's body containing n (or n's own statement).
func (s *scanned) topStmt(fd *ast.FuncDecl, n ast.Node) ast.Stmt {
	for _, st := range fd.Body.List {
		if st.Pos() <= n.Pos() && n.End() <= st.End() {
			return st
		}
	}
	return nil
}

func (s *scanned) stmtReads(st ast.Stmt, obj types.Object, readsTrans func(string, types.Object) bool) bool {
	found := false
	lhsRoots := map[*ast.Ident]bool{}
	ast.Inspect(st, func(n ast.Node) bool {
		if as, ok := n.(*ast.AssignStmt); ok {
			for _, l := range as.Lhs {
				if id := rootIdent(l); id != nil {
					lhsRoots[id] = true
				}
			}
		}
		return true
	})
	ast.Inspect(st, func(n ast.Node) bool {
		switch x := n.(type) {
		case *ast.Ident:
			if s.info.Uses[x] == obj && !lhsRoots[x] {
				found = true
			}
			if f, ok := s.info.Uses[x].(*types.Func); ok && f.Pkg() == s.pkg && readsTrans(s.recvName(f)+x.Name, obj) {
				found = true
			}
		}
		return true
	})
	return found
}

// rhsReads: does the right-hand side of a top-level assignment read obj (directly or through a call)?
func (s *scanned) rhsReads(st ast.Stmt, obj types.Object, readsTrans func(string, types.Object) bool) bool {
	as, ok := st.(*ast.AssignStmt)
	if !ok {
		return true
	}
	for _, r := range as.Rhs {
		if s.stmtReads(&ast.ExprStmt{X: r}, obj, readsTrans) {
			return true
		}
	}
	return false
}

func runScanDump(repo string) {
	s, err := scanCodegen(repo)
	if err != nil {
		fmt.Fprintln(os.Stderr, err)
		os.Exit(1)
	}
	for _, st := range s.mapRangeSites() {
		fmt.Printf("SITE %-40s #%d %-45s %v  (%s)\n", st.Func, st.Ordinal, st.Expr, st.Features, st.Where)
	}
	for _, g := range s.globals() {
		fmt.Printf("GLOBAL %-22s %-24s %v\n", g.Name, g.Class, g.Details)
	}
}

// ---------------------------------------------------------------- ambient inputs (C02)

// ambientCalls lists every call in pkg/codegen (non-test files) to a function that reads something other than its
// arguments: the clock, random sources, the environment, the host, the process, the build information.
var ambientFuncs = map[string]map[string]bool{
	"time":          {"Now": true, "Since": true, "Until": true},
	"math/rand":     nil, // every function of the package
	"math/rand/v2":  nil,
	"crypto/rand":   nil,
	"os":            {"Getenv": true, "LookupEnv": true, "Environ": true, "Hostname": true, "Getpid": true, "Getppid": true, "Getwd": true, "UserHomeDir": true, "UserCacheDir": true, "UserConfigDir": true, "TempDir": true, "Executable": true, "Getuid": true, "Args": true},
	"os/user":       nil,
	"runtime/debug": {"ReadBuildInfo": true},
	"runtime":       {"Version": true, "NumCPU": true, "GOMAXPROCS": true, "NumGoroutine": true, "Caller": true, "Callers": true},
	"net":           nil,
}

func (s *scanned) ambientCalls() [][2]string {
	var out [][2]string
	for _, f := range s.files {
		ast.Inspect(f, func(n ast.Node) bool {
			sel, ok := n.(*ast.SelectorExpr)
			if !ok {
				return true
			}
			obj := s.info.Uses[sel.Sel]
			if obj == nil || obj.Pkg() == nil {
				return true
			}
			names, listed := ambientFuncs[obj.Pkg().Path()]
			if !listed {
				return true
			}
			if _, isType := obj.(*types.TypeName); isType {
				return true
			}
			if names != nil && !names[obj.Name()] {
				return true
			}
			fn := "(package level)"
			if fd := s.funcOf(n); fd != nil {
				fn = fd.Name.Name
			}
			out = append(out, [2]string{fn, obj.Pkg().Path() + "." + obj.Name()})
			return true
		})
	}
	sort.Slice(out, func(i, j int) bool { return out[i][0]+out[i][1] < out[j][0]+out[j][1] })
	return out
}

// addressFormats lists the fmt calls of pkg/codegen that print a value by address: a formatting verb applied to an
// argument whose text holds a heap address (a pointer that is not rendered by its own Error / String method, a pointer
// below the top level of a struct, a channel, a function), or the verb %p. Such a text differs from load to load of one
// document, so an error or an output built from it is not a function of the document (C02).
func (s *scanned) addressFormats() [][2]string {
	var out [][2]string
	implementsTextMethod := func(t types.Type) bool {
		for _, name := range []string{"Error", "String"} {
			obj, _, _ := types.LookupFieldOrMethod(t, true, nil, name)
			if fn, ok := obj.(*types.Func); ok {
				if sig, ok := fn.Type().(*types.Signature); ok && sig.Params().Len() == 0 && sig.Results().Len() == 1 {
					return true
				}
			}
		}
		return false
	}
	var prints func(t types.Type, top bool, depth int) bool
	prints = func(t types.Type, top bool, depth int) bool {
		if t == nil || depth > 4 {
			return false
		}
		if implementsTextMethod(t) {
			return false
		}
		switch u := t.Underlying().(type) {
		case *types.Pointer:
			if top { // fmt prints a top-level pointer to a struct, slice, array or map as & followed by the contents
				switch e := u.Elem().Underlying().(type) {
				case *types.Struct:
					for i := 0; i < e.NumFields(); i++ {
						if prints(e.Field(i).Type(), false, depth+1) {
							return true
						}
					}
					return false
				case *types.Slice:
					return prints(e.Elem(), false, depth+1)
				case *types.Array:
					return prints(e.Elem(), false, depth+1)
				case *types.Map:
					return prints(e.Key(), false, depth+1) || prints(e.Elem(), false, depth+1)
				}
			}
			return true
		case *types.Struct:
			for i := 0; i < u.NumFields(); i++ {
				if prints(u.Field(i).Type(), false, depth+1) {
					return true
				}
			}
		case *types.Slice:
			return prints(u.Elem(), false, depth+1)
		case *types.Array:
			return prints(u.Elem(), false, depth+1)
		case *types.Map:
			return prints(u.Key(), false, depth+1) || prints(u.Elem(), false, depth+1)
		case *types.Chan, *types.Signature:
			return true
		}
		return false
	}
	fmtFuncs := map[string]int{"Errorf": 0, "Sprintf": 0, "Printf": 0, "Fprintf": 1} // index of the format argument
	for _, f := range s.files {
		ast.Inspect(f, func(n ast.Node) bool {
			call, ok := n.(*ast.CallExpr)
			if !ok {
				return true
			}
			sel, ok := call.Fun.(*ast.SelectorExpr)
			if !ok {
				return true
			}
			obj := s.info.Uses[sel.Sel]
			if obj == nil || obj.Pkg() == nil || obj.Pkg().Path() != "fmt" {
				return true
			}
			fi, listed := fmtFuncs[obj.Name()]
			if !listed || len(call.Args) <= fi {
				return true
			}
			tv, ok := s.info.Types[call.Args[fi]]
			if !ok || tv.Value == nil {
				return true
			}
			format, err := strconv.Unquote(tv.Value.ExactString())
			if err != nil {
				return true
			}
			fn := "(package level)"
			if fd := s.funcOf(n); fd != nil {
				fn = fd.Name.Name
			}
			arg := fi + 1
			for i := 0; i < len(format); i++ {
				if format[i] != '%' {
					continue
				}
				i++
				for i < len(format) && strings.ContainsRune("+-# 0123456789.[]*", rune(format[i])) {
					i++
				}
				if i >= len(format) || format[i] == '%' {
					continue
				}
				verb := format[i]
				if arg < len(call.Args) {
					t := s.info.TypeOf(call.Args[arg])
					if verb == 'p' || (verb != 'T' && verb != 't' && prints(t, true, 0)) {
						out = append(out, [2]string{fn, fmt.Sprintf("%%%c of %s", verb, t)})
					}
				}
				arg++
			}
			return true
		})
	}
	sort.Slice(out, func(i, j int) bool { return out[i][0]+out[i][1] < out[j][0]+out[j][1] })
	return out
}
