package main

import (
	"encoding/json"
	"fmt"
	"math/rand"
	"strings"

	"github.com/oapi-codegen/oapi-codegen/v2/pkg/codegen"
)

const labRoot = "/verif/work/lab"

// opsSpec: operations of every shape middleware must wrap: without parameters, with path /
// query / header parameters, with a body, with security.
func opsSpec(security bool) []byte {
	sec := ""
	secOp := ""
	if security {
		sec = `,"securitySchemes":{"bearerAuth":{"type":"http","scheme":"bearer"}}`
		secOp = `,"/secure":{"get":{"operationId":"getSecure","security":[{"bearerAuth":["s1","s2"]}],"responses":{"204":{"description":"ok"}}}}`
	}
	return []byte(`{"openapi":"3.0.3","info":{"title":"ops","version":"1"},"paths":{
 "/plain":{"get":{"operationId":"getPlain","responses":{"204":{"description":"ok"}}}},
 "/items/{id}":{"get":{"operationId":"getItem","parameters":[{"name":"id","in":"path","required":true,"schema":{"type":"integer"}}],"responses":{"204":{"description":"ok"}}},
   "put":{"operationId":"putItem","parameters":[{"name":"id","in":"path","required":true,"schema":{"type":"integer"}}],"requestBody":{"required":true,"content":{"application/json":{"schema":{"$ref":"#/components/schemas/Item"}}}},"responses":{"204":{"description":"ok"}}}},
 "/search":{"get":{"operationId":"search","parameters":[{"name":"q","in":"query","required":true,"schema":{"type":"string"}},{"name":"limit","in":"query","schema":{"type":"integer"}},{"name":"X-Req","in":"header","schema":{"type":"string"}}],"responses":{"204":{"description":"ok"}}}}` + secOp + `},
 "components":{"schemas":{"Item":{"type":"object","properties":{"name":{"type":"string"}}}}` + sec + `}}`)
}

type labReq struct {
	op, method, target, body string
	header                   map[string][]string
}

func opsRequests(security bool) []labReq {
	rs := []labReq{
		{"GetPlain", "GET", "/plain", "", nil},
		{"GetItem", "GET", "/items/7", "", nil},
		{"PutItem", "PUT", "/items/7", `{"name":"n"}`, map[string][]string{"Content-Type": {"application/json"}}},
		{"Search", "GET", "/search?q=x&limit=3", "", map[string][]string{"X-Req": {"r"}}},
	}
	if security {
		rs = append(rs, labReq{"GetSecure", "GET", "/secure", "", nil})
	}
	return rs
}

var coqFlavour = map[string]string{"echo": "Echo", "chi": "Chi", "gin": "Gin", "gorilla": "Gorilla", "stdhttp": "StdHTTP", "fiber": "Fiber", "iris": "Iris"}

func coqMws(n, short int) string {
	parts := make([]string, n)
	for i := range parts {
		if i == short {
			parts[i] = "Stop"
		} else {
			parts[i] = "Pass"
		}
	}
	return "[" + strings.Join(parts, "; ") + "]"
}

func coqTrace(evs []LabEvent) (string, bool) {
	var parts []string
	for _, e := range evs {
		switch e.Kind {
		case "mw":
			parts = append(parts, "EMw "+e.Name)
		case "strictmw":
			parts = append(parts, "EStrict "+e.Name)
		case "handler":
			parts = append(parts, "EHandler")
		default:
			return "", false
		}
	}
	return "[" + strings.Join(parts, "; ") + "]", true
}

// documentedTrace is the statement of C14 rendered independently of the model.
func documentedTrace(fw string, ftl bool, n, short int, strict bool, sn, sshort int) []string {
	var order []int
	switch fw {
	case "chi", "gorilla", "stdhttp":
		for i := 0; i < n; i++ {
			if ftl {
				order = append(order, i)
			} else {
				order = append(order, n-1-i)
			}
		}
	case "gin", "fiber", "iris":
		for i := 0; i < n; i++ {
			order = append(order, i)
		}
	}
	var out []string
	for _, i := range order {
		out = append(out, fmt.Sprintf("mw%d", i))
		if i == short {
			return out
		}
	}
	if strict {
		for i := sn - 1; i >= 0; i-- {
			out = append(out, fmt.Sprintf("strictmw%d", i))
			if i == sshort {
				return out
			}
		}
	}
	return append(out, "handler")
}

func runC14(r *Report, rng *rand.Rand, thorough bool) {
	var pkgs []LabPkg
	type variant struct {
		name, fw    string
		ftl, strict bool
		security    bool
	}
	var vars []variant
	for _, fw := range Frameworks {
		security := fw != "iris" // the iris wrapper does not compile with security scopes (C01 / C18)
		vars = append(vars, variant{"c14_" + fw, fw, false, false, security})
		vars = append(vars, variant{"c14_" + fw + "_strict", fw, false, true, security})
		if fw == "chi" || fw == "gorilla" || fw == "stdhttp" {
			vars = append(vars, variant{"c14_" + fw + "_ftl", fw, true, false, security})
			// the flag is about the per-operation (router) middlewares; the strict chain keeps its one documented order under it
			vars = append(vars, variant{"c14_" + fw + "_ftl_strict", fw, true, true, security})
		}
	}
	for _, v := range vars {
		cfg := codegen.Configuration{Generate: fwGenerate(v.fw, codegen.GenerateOptions{Models: true, Strict: v.strict})}
		if v.ftl {
			// std-http reads the chi flag
			cfg.Compatibility.ApplyChiMiddlewareFirstToLast = v.fw != "gorilla"
			cfg.Compatibility.ApplyGorillaMiddlewareFirstToLast = v.fw == "gorilla"
		}
		pkgs = append(pkgs, LabPkg{Name: v.name, Spec: opsSpec(v.security), Cfg: cfg, FW: v.fw})
	}
	lab, err := BuildLab(labRoot, "c14", pkgs)
	if err != nil {
		r.Violate("lab_build_failed", err.Error(), nil)
		return
	}
	var scenarios []map[string]any
	type meta struct {
		v                    variant
		req                  labReq
		n, short, sn, sshort int
		warm                 int
	}
	metas := map[string]meta{}
	for _, v := range vars {
		st := lab.Status[v.name]
		if !st.OK {
			r.Violate("lab_package_broken:"+v.name, fmt.Sprintf("package %s: generate error %q, compile error %q", v.name, st.GenerateError, trunc(st.CompileError, 600)), map[string]any{"package": v.name})
			continue
		}
		for _, rq := range opsRequests(v.security) {
			for n := 0; n <= 3; n++ {
				for short := -1; short < n; short++ {
					snMax := 0
					if v.strict {
						snMax = 2
					}
					for sn := 0; sn <= snMax; sn++ {
						for sshort := -1; sshort < sn; sshort++ {
							if !thorough && v.strict && n > 0 && sn > 0 && rng.Intn(3) != 0 {
								continue
							}
							// the net/http flavours have a second constructor (NewStrictHandlerWithOptions): same chain expected
							ctors := []bool{false}
							if v.strict && sn > 0 && (v.fw == "chi" || v.fw == "gorilla" || v.fw == "stdhttp") {
								ctors = []bool{false, true}
							}
							for _, wopts := range ctors {
								// the observed request is the first, second or third one served by the mounted handler
								warm := 0
								if n+sn >= 2 {
									warm = rng.Intn(3)
								}
								r.Dist[fmt.Sprintf("earlier_requests_on_the_handler=%d", warm)]++
								// half of the servers are mounted with an error handler of the caller's next to the middlewares (the
								// options object carries both): the chain is the same
								errh := rng.Intn(2) == 0
								r.Dist[fmt.Sprintf("custom_error_handler_next_to_middlewares=%v", errh)]++
								id := fmt.Sprintf("%s/%s/%d/%d/%d/%d/%v/w%d/e%v", v.name, rq.op, n, short, sn, sshort, wopts, warm, errh)
								scenarios = append(scenarios, map[string]any{"id": id, "pkg": v.name,
									"opts": map[string]any{"middlewares": n, "short_circuit": short, "strict_middlewares": sn, "strict_short_circuit": sshort, "strict_with_options": wopts, "warmup": warm, "error_handler": errh},
									"req":  map[string]any{"method": rq.method, "target": rq.target, "header": rq.header, "body": rq.body}})
								metas[id] = meta{v, rq, n, short, sn, sshort, warm}
								if n > 0 && short == -1 && sshort == -1 && (v.fw == "gin" || v.fw == "chi" || v.fw == "gorilla" || v.fw == "stdhttp") && (thorough || sn == 0) {
									// a middleware that sends the response header itself and passes on: the same chain is expected
									k := 1 + rng.Intn(n)
									id2 := id + fmt.Sprintf("/writes%d", k)
									scenarios = append(scenarios, map[string]any{"id": id2, "pkg": v.name,
										"opts": map[string]any{"middlewares": n, "short_circuit": short, "strict_middlewares": sn, "strict_short_circuit": sshort, "strict_with_options": wopts, "warmup": warm, "mw_writes": k, "error_handler": errh},
										"req":  map[string]any{"method": rq.method, "target": rq.target, "header": rq.header, "body": rq.body}})
									metas[id2] = meta{v, rq, n, short, sn, sshort, warm}
									r.Dist["middleware_that_writes_and_passes_on"]++
								}
								if wopts {
									r.Dist["constructor=NewStrictHandlerWithOptions"]++
								}
							}
						}
					}
				}
			}
		}
	}
	results, err := lab.Run(scenarios)
	if err != nil {
		r.Violate("lab_run_failed", err.Error(), nil)
		return
	}
	cases := NewCases("cases_C14", "From V Require Import Model.Chain Corr.Eval.",
		"flavour * bool * list mw * option (list mw) * list event", "mismatches_chain")
	hcases := NewCases("cases_C14_history", "From V Require Import Model.Chain Corr.Eval.",
		"flavour * bool * list mw * option (list mw) * nat * list event", "mismatches_chain_hist")
	defer hcases.WriteTo(r)
	// the server mounted from an options value that carries the middlewares next to an error handler of the caller's
	ocases := NewCases("cases_C14_options", "From V Require Import Model.Chain Corr.Eval.",
		"flavour * bool * list mw * bool * option (list mw) * list event", "mismatches_chain_opts")
	defer ocases.WriteTo(r)
	// gin without a strict layer: middlewares that pass, abort, or write to the response and pass
	gcases := NewCases("cases_C14_gin", "From V Require Import Model.Chain Corr.Eval.", "list gmw * list event", "mismatches_gin_writes")
	defer gcases.WriteTo(r)
	for _, sc := range scenarios {
		id := sc["id"].(string)
		m := metas[id]
		res := results[id]
		replay := map[string]any{"scenario": sc, "package_spec": json.RawMessage(opsSpec(m.v.security)), "framework": m.v.fw, "strict": m.v.strict, "first_to_last_flag": m.v.ftl}
		if res == nil || res.Err != "" {
			e := "no result"
			if res != nil {
				e = res.Err
			}
			r.Violate("scenario_error", id+": "+e, replay)
			continue
		}
		tr, ok := coqTrace(res.Trace)
		if !ok {
			r.Violate("unexpected_event", fmt.Sprintf("%s: trace %v", id, res.Trace), replay)
			continue
		}
		strictTerm := "None"
		if m.v.strict {
			strictTerm = "(Some " + coqMws(m.sn, m.sshort) + ")"
		}
		if m.warm == 0 {
			errh := false
			if o, ok := sc["opts"].(map[string]any); ok {
				errh, _ = o["error_handler"].(bool)
			}
			ocases.Add(fmt.Sprintf("(%s, %v, %s, %v, %s, %s)", coqFlavour[m.v.fw], m.v.ftl, coqMws(m.n, m.short), errh, strictTerm, tr), replay)
			cases.Add(fmt.Sprintf("(%s, %v, %s, %s, %s)", coqFlavour[m.v.fw], m.v.ftl, coqMws(m.n, m.short), strictTerm, tr), replay)
		} else {
			hcases.Add(fmt.Sprintf("(%s, %v, %s, %s, %d, %s)", coqFlavour[m.v.fw], m.v.ftl, coqMws(m.n, m.short), strictTerm, m.warm, tr), replay)
		}
		if m.v.fw == "gin" && !m.v.strict && m.warm == 0 {
			writes := 0
			if o, ok := sc["opts"].(map[string]any); ok {
				if k, ok := o["mw_writes"].(int); ok {
					writes = k
				}
			}
			var gm []string
			for i := 0; i < m.n; i++ {
				switch {
				case i == m.short:
					gm = append(gm, "GAbort")
				case i+1 == writes:
					gm = append(gm, "GWrite")
				default:
					gm = append(gm, "GPass")
				}
			}
			gcases.Add(fmt.Sprintf("([%s], %s)", strings.Join(gm, "; "), tr), replay)
		}
		r.Count(id, m.n+m.sn > 0)
		r.Dist["fw="+m.v.fw]++
		if len(r.Samples) < 3 && m.n == 2 && (m.sn == 1 || !m.v.strict) {
			r.Sample(map[string]any{"package": m.v.name, "operation": m.req.op, "middlewares": m.n, "short_circuit": m.short, "strict_middlewares": m.sn, "trace": res.Trace})
		}
		// ---- oracle: the statement
		if m.v.fw == "echo" && m.n > 0 {
			continue // no per-operation middleware option in the echo flavour
		}
		var got []string
		for _, e := range res.Trace {
			if e.Kind == "handler" {
				got = append(got, "handler")
				if e.Name != m.req.op {
					r.Violate("wrong_handler", fmt.Sprintf("%s: handler %s ran", id, e.Name), replay)
				}
			} else {
				got = append(got, e.Kind+e.Name)
			}
			if e.Kind == "strictmw" {
				var opid string
				_ = json.Unmarshal(e.Data["opid"], &opid)
				if opid != m.req.op {
					r.Violate("strict_opid", fmt.Sprintf("%s: strict middleware received operation id %q, want %q", id, opid, m.req.op), replay)
				}
			}
		}
		n := m.n
		if m.v.fw == "echo" {
			n = 0
		}
		want := documentedTrace(m.v.fw, m.v.ftl, n, m.short, m.v.strict, m.sn, m.sshort)
		if strings.Join(got, ",") != strings.Join(want, ",") {
			sig := "middleware_trace"
			if m.v.fw == "iris" && m.n > 0 {
				sig = "iris_middlewares_not_installed"
			}
			r.Violate(sig, fmt.Sprintf("%s: trace %v, documented %v", id, got, want), replay)
		}
	}
	cases.WriteTo(r)
	r.Exhaustive = thorough
	r.Rule = "generated servers for 7 frameworks x {plain, strict} (+ first-to-last flag variants for chi, gorilla, std-http, plain and strict) compiled and served in process; every operation shape (no parameters, path / query / header parameters, body, security) x 0-3 per-operation middlewares x every short-circuit position x 0-2 strict middlewares x every strict short-circuit position x both strict constructors of the net/http flavours (NewStrictHandler, NewStrictHandlerWithOptions) x (gin and the net/http flavours) one of the middlewares sending the response header itself before passing on x with and without an error handler of the caller's in the same options object x the observed request being the first, second or third served by the mounted handler (thorough: the whole product; quick: a third of the strict x per-operation combinations); trace of recording middlewares and stub handler compared with the model in Coq and with the documented order; non-trivial = at least one middleware installed"
}
