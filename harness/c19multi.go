package main

import (
	"context"
	"encoding/json"
	"fmt"
	"strings"

	"github.com/oapi-codegen/oapi-codegen/v2/pkg/codegen"
)

// Multi-document specifications (C19): the generated GetSwagger() of compiled packages is called in the
// laboratory driver; it must load, validate and equal the input document with its external references
// resolved - with an import mapping (references into another generated package, resolved through that
// package's PathToRawSpec) and without one (a path item kept in a file of its own needs no Go type).

func init() {
	virtualFiles["paths/pets.yaml"] = []byte(`{"get":{"operationId":"ListPets","parameters":[{"name":"limit","in":"query","schema":{"type":"integer"}}],"responses":{"200":{"description":"pets","content":{"application/json":{"schema":{"type":"array","items":{"type":"object","properties":{"id":{"type":"integer"},"name":{"type":"string"}}}}}}}}},"post":{"operationId":"CreatePet","requestBody":{"content":{"application/json":{"schema":{"type":"object","properties":{"name":{"type":"string"}}}}}},"responses":{"201":{"description":"created"}}}}`)
}

func runC19Multi(r *Report) {
	split := `{"openapi":"3.0.3","info":{"title":"split","version":"1"},"paths":{"/pets":{"$ref":"paths/pets.yaml"},"/local":{"get":{"operationId":"GetLocal","responses":{"200":{"description":"ok","content":{"application/json":{"schema":{"$ref":"#/components/schemas/Local"}}}}}}}},"components":{"schemas":{"Local":{"type":"object","properties":{"l":{"type":"string"}}}}}}`
	mapped := `{"openapi":"3.0.3","info":{"title":"mapped","version":"1"},"paths":{"/ext":{"get":{"operationId":"GetExt","responses":{"200":{"description":"ok","content":{"application/json":{"schema":{"$ref":"other.yaml#/components/schemas/Ext"}}}}}}}}}`
	gen := codegen.GenerateOptions{Models: true, EmbeddedSpec: true, Client: true}
	pkgs := []LabPkg{
		{Name: "c19_split", Spec: []byte(split), Cfg: codegen.Configuration{Generate: gen}},
		{Name: "c19_other", Spec: virtualFiles["other.yaml"], Cfg: codegen.Configuration{Generate: codegen.GenerateOptions{Models: true, EmbeddedSpec: true}, OutputOptions: codegen.OutputOptions{SkipPrune: true}}},
		{Name: "c19_mapped", Spec: []byte(mapped), Cfg: codegen.Configuration{Generate: gen, ImportMapping: map[string]string{"other.yaml": "lab/pkgs/c19_other"}}},
	}
	// a document larger than 1 MiB (one long non-ASCII description): the generated decoder must give all of it back
	bigDesc := strings.Repeat("große Beschreibung — 大きな説明 ", 40000)
	bigSpec, _ := json.Marshal(map[string]any{"openapi": "3.0.3", "info": map[string]any{"title": "big", "version": "1"},
		"paths": map[string]any{"/big": map[string]any{"get": map[string]any{"operationId": "GetBig", "responses": map[string]any{"200": map[string]any{"description": "ok",
			"content": map[string]any{"application/json": map[string]any{"schema": map[string]any{"$ref": "#/components/schemas/Big"}}}}}}}},
		"components": map[string]any{"schemas": map[string]any{"Big": map[string]any{"type": "object", "description": bigDesc, "properties": map[string]any{"b": map[string]any{"type": "string"}}}}}})
	pkgs = append(pkgs, LabPkg{Name: "c19_big", Spec: bigSpec, Cfg: codegen.Configuration{Generate: codegen.GenerateOptions{Models: true, EmbeddedSpec: true}}})
	r.Dist[fmt.Sprintf("big_document_bytes=%d", len(bigSpec))]++
	lab, err := BuildLab(labRoot, "c19", pkgs)
	if err != nil {
		r.Violate("lab_build_failed", err.Error(), nil)
		return
	}
	var scenarios []map[string]any
	for _, p := range pkgs {
		if st := lab.Status[p.Name]; !st.OK {
			r.Violate("multi_document_package_broken/"+p.Name, trunc(st.GenerateError+" "+st.CompileError, 600), map[string]any{"spec_text": trunc(string(p.Spec), 4000)})
			continue
		}
		scenarios = append(scenarios, map[string]any{"id": p.Name, "pkg": p.Name, "opts": map[string]any{"short_circuit": -1, "strict_short_circuit": -1}, "swagger": map[string]any{}})
	}
	results, err := lab.Run(scenarios)
	if err != nil {
		r.Violate("lab_run_failed", err.Error(), nil)
		return
	}
	for _, p := range pkgs {
		res := results[p.Name]
		if res == nil {
			continue
		}
		replay := map[string]any{"package": p.Name, "spec_text": trunc(string(p.Spec), 4000), "import_mapping": p.Cfg.ImportMapping, "external_documents": []string{"paths/pets.yaml", "other.yaml"}}
		r.Count("multi:"+p.Name, true)
		r.Dist["family=multi-document"]++
		if res.Err != "" {
			r.Violate("embedded_multi_document_spec_does_not_load", fmt.Sprintf("%s: %s", p.Name, res.Err), replay)
			continue
		}
		// expected: the input, loaded with its external documents and references internalised the same way
		want, err := loadSpec(p.Spec)
		if err != nil {
			r.Violate("harness_cannot_load_input", err.Error(), replay)
			continue
		}
		want.InternalizeRefs(context.Background(), nil)
		wb, _ := want.MarshalJSON()
		var wantRoot, gotRoot map[string]any
		_ = json.Unmarshal(wb, &wantRoot)
		_ = json.Unmarshal(res.Out[0], &gotRoot)
		dropEmptyComponents(wantRoot)
		dropEmptyComponents(gotRoot)
		if canon(wantRoot) != canon(gotRoot) {
			r.Violate("embedded_multi_document_spec_differs", fmt.Sprintf("%s: GetSwagger() gives %s, input is %s", p.Name, trunc(canon(gotRoot), 600), trunc(canon(wantRoot), 600)), replay)
		}
	}
}
