package main

import (
	"encoding/json"
	"fmt"
	"math/rand"
	"net/url"
	"strings"
)

type pobs struct {
	fw   string
	cell pcell
	val  *pvalue
	res  *LabResult
	sc   map[string]any
}

// runParamRoundTrips drives client -> server round trips for every cell; k values per cell.
func runParamRoundTrips(r *Report, rng *rand.Rand, lab *Lab, cells map[string][]pcell, k int, withOmitted bool) []pobs {
	var scenarios []map[string]any
	var obs []pobs
	broken := map[string]bool{}
	for _, loc := range paramLocs {
		for _, fw := range Frameworks {
			for _, c := range cells[loc] {
				name := cellPkg(fw, c)
				st := lab.Status[name]
				if !st.OK {
					if !broken[name] {
						broken[name] = true
						r.Violate("lab_package_broken:"+name, fmt.Sprintf("package %s does not build: generate error %q, compile error %q", name, st.GenerateError, trunc(st.CompileError, 500)), map[string]any{"framework": fw, "location": loc})
					}
					continue
				}
				for i := 0; i < valuesPerCell(c, k); i++ {
					v := genValueAt(rng, c, i)
					id := fmt.Sprintf("%s/%s/%d", name, c.Op, i)
					sc := map[string]any{"id": id, "pkg": name, "opts": map[string]any{"short_circuit": -1, "strict_short_circuit": -1},
						"client": map[string]any{"fn": "New" + opName(c.Op) + "Request", "args": clientArgs(c, &v), "then_serve": true, "via_method": len(scenarios)%2 == 1}}
					scenarios = append(scenarios, sc)
					vv := v
					obs = append(obs, pobs{fw, c, &vv, nil, sc})
				}
				if withOmitted && !c.Required {
					id := fmt.Sprintf("%s/%s/omitted", name, c.Op)
					sc := map[string]any{"id": id, "pkg": name, "opts": map[string]any{"short_circuit": -1, "strict_short_circuit": -1},
						"client": map[string]any{"fn": "New" + opName(c.Op) + "Request", "args": clientArgs(c, nil), "then_serve": true, "via_method": len(scenarios)%2 == 1}}
					scenarios = append(scenarios, sc)
					obs = append(obs, pobs{fw, c, nil, nil, sc})
				}
			}
		}
	}
	results, err := lab.Run(scenarios)
	if err != nil {
		r.Violate("lab_run_failed", err.Error(), nil)
		return nil
	}
	for i := range obs {
		obs[i].res = results[obs[i].sc["id"].(string)]
	}
	return obs
}

// classifyRoundTrip gives the signature of a failed round trip: a narrow class per known
// deviation of the unchanged tree (pinned runtime library, frameworks, templates), and
// "roundtrip/..." for anything else.
func classifyRoundTrip(o pobs, got json.RawMessage, handlers int) string {
	c := o.cell
	st := c.effStyle()
	if o.val == nil {
		if st == "deepObject" && handlers == 1 {
			return "runtime_deepobject_omitted_optional_not_absent"
		}
		return "omitted_optional_not_absent/" + o.fw + "/" + c.Loc
	}
	atoms := strings.Join(o.val.Atoms, "")
	for _, m := range o.val.Obj {
		atoms += m[1]
	}
	var gotStr string
	_ = json.Unmarshal(got, &gotStr)
	isPrim := !strings.HasPrefix(c.Shape, "arr:") && c.Shape != "obj"
	unnamed := c.Loc == "query" && c.Kind == "styled" && ((c.Shape == "obj" && c.effExplode()) || st == "deepObject")
	switch {
	case c.Kind == "styled" && isPrim && st == "label" && len(o.val.Atoms) == 1 && (gotStr == "."+o.val.Atoms[0] || (c.Shape != "string" && handlers == 0)):
		return "runtime_label_primitive_prefix_not_stripped"
	case c.Kind == "styled" && isPrim && st == "matrix" && len(o.val.Atoms) == 1 && (gotStr == ";"+c.Name+"="+o.val.Atoms[0] || (c.Shape != "string" && handlers == 0)):
		return "runtime_matrix_primitive_prefix_not_stripped"
	case unnamed && c.Required && handlers == 0 && o.fw != "echo":
		return "required_query_object_without_own_key_rejected/" + o.fw
	case c.Kind == "styled" && c.Shape == "obj" && strings.ContainsAny(atoms, "\"\\"):
		return "runtime_object_member_not_json_escaped"
	case st == "deepObject" && strings.Contains(atoms, "+") && handlers == 1:
		return "runtime_deepobject_plus_not_escaped"
	case c.Loc == "path" && c.Kind == "json" && strings.ContainsAny(atoms, "/?#") && handlers == 0:
		return "json_path_parameter_not_escaped_by_client"
	case c.Loc == "path" && c.Kind == "json" && (o.fw == "gin" || o.fw == "fiber" || o.fw == "iris"):
		return "json_path_parameter/" + o.fw
	case c.Loc == "path" && o.fw == "fiber" && strings.Contains(c.Name, "-") && handlers == 0:
		return "fiber_path_parameter_name_with_dash_not_routed"
	case c.Loc == "path" && strings.Contains(atoms, "/") && handlers == 0 && (o.fw == "gin" || o.fw == "gorilla" || o.fw == "iris"):
		return "path_slash_not_routed/" + o.fw
	case c.Loc == "header" && o.fw == "fiber" && handlers == 1 && edgeSpace(o.val):
		return "fiber_header_space_trimmed" // only values with a blank at an edge of an element
	case c.Loc == "cookie" && (c.Kind == "styled" || c.Kind == "pass") && (strings.ContainsAny(atoms, " ,;\"\\") || !isASCII(atoms)):
		return "cookie_value_bytes_stripped_by_client" // styled cookies are written unescaped; JSON cookies are query-escaped and survive
	case c.Loc == "cookie" && o.fw == "gin" && strings.Contains(atoms, "+") && handlers == 1:
		return "gin_cookie_plus_unescaped_by_framework"
	}
	return "roundtrip/" + o.fw + "/" + c.Loc + "/" + st + "/" + c.Shape
}

// edgeSpace: some element of the value starts or ends with a blank
func edgeSpace(v *pvalue) bool {
	all := append([]string{}, v.Atoms...)
	for _, m := range v.Obj {
		all = append(all, m[1])
	}
	for _, a := range all {
		if strings.HasPrefix(a, " ") || strings.HasSuffix(a, " ") {
			return true
		}
	}
	return false
}

func isASCII(s string) bool {
	for i := 0; i < len(s); i++ {
		if s[i] >= 0x80 {
			return false
		}
	}
	return true
}

func runC04(r *Report, rng *rand.Rand, thorough bool) {
	lab, cells, err := buildParamsLab()
	if err != nil {
		r.Violate("lab_build_failed", err.Error(), nil)
		return
	}
	k := 3
	if thorough {
		k = 40
	}
	obs := runParamRoundTrips(r, rng, lab, cells, k, true)
	runC04Escape(r, rng, thorough)
	dcases := NewCases("cases_C04_decode", "From V Require Import Model.OasTable Corr.Eval.", "location * option style * option bool * string * shape * wire * value", "mismatches_decode")
	defer dcases.WriteTo(r)
	nd := 0
	for _, o := range obs {
		replay := map[string]any{"framework": o.fw, "cell": o.cell, "scenario": o.sc}
		if o.res == nil {
			r.Violate("scenario_error", "no result", replay)
			continue
		}
		r.Count(fmt.Sprint(o.sc["client"]), o.val != nil && o.val.Class != "alnum" && o.val.Class != "int")
		r.Dist["fw="+o.fw]++
		r.Dist["loc="+o.cell.Loc]++
		if o.val != nil {
			r.Dist["class="+o.val.Class]++
		}
		if o.res.Err != "" {
			if o.fw == "stdhttp" && strings.Contains(o.res.Err, "bad wildcard name") {
				r.Violate("stdhttp_path_parameter_name_not_a_go_identifier", fmt.Sprintf("std-http %s: %s", o.cell.key(), o.res.Err), replay)
				continue
			}
			r.Violate("client_error:"+o.cell.key(), fmt.Sprintf("%s %s: %s", o.fw, o.cell.key(), o.res.Err), replay)
			continue
		}
		var handlers []LabEvent
		for _, e := range o.res.Trace {
			if e.Kind == "handler" {
				handlers = append(handlers, e)
			}
		}
		var got json.RawMessage
		if len(handlers) == 1 {
			got = handlerArg(o.cell, handlers[0])
		}
		ok := len(handlers) == 1
		if ok {
			if o.val == nil {
				ok = got == nil
			} else {
				ok = got != nil && jsonEqual(got, o.val.JSON)
			}
		}
		if len(r.Samples) < 4 && o.val != nil && o.val.Class == "reserved" {
			r.Sample(map[string]any{"framework": o.fw, "cell": o.cell.key(), "value": o.val.JSON, "wire": o.res.Wire, "received": got})
		}
		// model tie: the table's parse of the observed wire form is the value the handler received
		if ok && o.val != nil && o.cell.Kind == "styled" && o.res.Wire != nil && nd < 900 {
			st := o.cell.effStyle()
			isPrim := !strings.HasPrefix(o.cell.Shape, "arr:") && o.cell.Shape != "obj"
			modelled := (st == "simple" || st == "form" || st == "matrix" || st == "deepObject" || (st == "label" && !isPrim)) && (o.cell.Shape == "string" || o.cell.Shape == "int" || !isPrim)
			if modelled {
				single, pairs, err := observedWire(o.cell, o.res.Wire)
				if cv, ok1 := coqValue(o.cell, o.val); err == nil && ok1 {
					if cw, ok2 := coqWire(o.cell, single, pairs); ok2 {
						dcases.Add(fmt.Sprintf("(%s, %s, %s, %s)", coqCellPrefix(o.cell), coqShape(o.cell), cw, cv), replay)
						nd++
					}
				}
			}
		}
		if !ok {
			sig := classifyRoundTrip(o, got, len(handlers))
			supplied := "omitted"
			if o.val != nil {
				supplied = string(o.val.JSON)
			}
			r.Violate(sig, fmt.Sprintf("%s %s: supplied %s, handler calls %d, received %s (status %d, wire %s ? %s)", o.fw, o.cell.key(), supplied, len(handlers), string(got), o.res.Status, wirePath(o.res), wireQuery(o.res)), replay)
		}
	}
	// ---- several path variables in one operation, declared out of path order: each value under its own name
	{
		var scenarios []map[string]any
		type mm struct {
			fw   string
			vals map[string]string
		}
		ms := map[string]mm{}
		for _, fw := range Frameworks {
			name := paramPkgName(fw, "path")
			st := lab.Status[name]
			if st == nil || !st.OK {
				continue
			}
			names := builderParamNames(st.Code, "NewPathmultiRequest")
			if len(names) != 3 {
				r.Violate("client_builder_signature", fmt.Sprintf("%s: NewPathmultiRequest has path arguments %v", name, names), nil)
				continue
			}
			for k := 0; k < 3; k++ {
				vals := map[string]string{}
				var args []json.RawMessage
				for _, n := range names {
					v := strClasses["alnum"][rng.Intn(len(strClasses["alnum"]))] + fmt.Sprint(rng.Intn(1000))
					vals[n] = v
					b, _ := json.Marshal(v)
					args = append(args, b)
				}
				id := fmt.Sprintf("%s/pathmulti/%d", name, k)
				scenarios = append(scenarios, map[string]any{"id": id, "pkg": name, "opts": map[string]any{"short_circuit": -1, "strict_short_circuit": -1},
					"client": map[string]any{"fn": "NewPathmultiRequest", "args": args, "then_serve": true, "via_method": len(scenarios)%2 == 1}})
				ms[id] = mm{fw, vals}
			}
		}
		results, err := lab.Run(scenarios)
		if err != nil {
			r.Violate("lab_run_failed", err.Error(), nil)
		}
		for _, sc := range scenarios {
			id := sc["id"].(string)
			res := results[id]
			m := ms[id]
			replay := map[string]any{"framework": m.fw, "scenario": sc, "supplied_by_name": m.vals}
			r.Count("pathmulti/"+id+fmt.Sprint(m.vals), true)
			r.Dist["several-path-variables"]++
			if res == nil || res.Err != "" {
				continue
			}
			var hs []LabEvent
			for _, e := range res.Trace {
				if e.Kind == "handler" {
					hs = append(hs, e)
				}
			}
			if len(hs) != 1 {
				r.Violate("roundtrip/"+m.fw+"/path/several-variables", fmt.Sprintf("%s pathmulti: %d handler calls (status %d, path %s)", m.fw, len(hs), res.Status, wirePath(res)), replay)
				continue
			}
			for n, v := range m.vals {
				var got string
				_ = json.Unmarshal(hs[0].Data[n], &got)
				if got != v {
					r.Violate("roundtrip/"+m.fw+"/path/several-variables", fmt.Sprintf("%s pathmulti: client argument %s = %q, handler received %s = %q (path %s)", m.fw, n, v, n, got, wirePath(res)), replay)
					break
				}
			}
		}
	}
	// an operation whose path begins with a parameter, values with a colon (URN, time of day, URL, date-time)
	{
		var scenarios []map[string]any
		type lm struct {
			fw       string
			lead, id string
		}
		ms := map[string]lm{}
		leads := []string{"plain", "urn:acme", "12:30", "mailto:a@b.c", "2024-02-29T10:30:00Z", "a b", "x:y:z", ":lead", "trail:"}
		for _, fw := range Frameworks {
			name := "par_" + fw + "_lead"
			st := lab.Status[name]
			if st == nil || !st.OK {
				if st != nil {
					r.Violate("lab_package_broken:"+name, trunc(st.GenerateError+" "+st.CompileError, 400), nil)
				}
				continue
			}
			for k, lead := range leads {
				idv := fmt.Sprintf("id%d", k)
				lb, _ := json.Marshal(lead)
				ib, _ := json.Marshal(idv)
				id := fmt.Sprintf("%s/lead/%d", name, k)
				scenarios = append(scenarios, map[string]any{"id": id, "pkg": name, "opts": map[string]any{"short_circuit": -1, "strict_short_circuit": -1},
					"client": map[string]any{"fn": "NewLeadparamRequest", "args": []json.RawMessage{lb, ib}, "then_serve": true, "via_method": len(scenarios)%2 == 1}})
				ms[id] = lm{fw, lead, idv}
			}
		}
		results, err := lab.Run(scenarios)
		if err != nil {
			r.Violate("lab_run_failed", err.Error(), nil)
		}
		for _, sc := range scenarios {
			id := sc["id"].(string)
			res := results[id]
			m := ms[id]
			replay := map[string]any{"framework": m.fw, "scenario": sc, "lead": m.lead}
			r.Count("lead/"+id, strings.Contains(m.lead, ":"))
			r.Dist["path-begins-with-parameter"]++
			if res == nil {
				continue
			}
			var hs []LabEvent
			for _, e := range res.Trace {
				if e.Kind == "handler" {
					hs = append(hs, e)
				}
			}
			var gotLead, gotID string
			if len(hs) == 1 {
				_ = json.Unmarshal(hs[0].Data["lead"], &gotLead)
				_ = json.Unmarshal(hs[0].Data["id"], &gotID)
			}
			if res.Err != "" || len(hs) != 1 || gotLead != m.lead || gotID != m.id {
				r.Violate("roundtrip/"+m.fw+"/path/leading-parameter", fmt.Sprintf("%s /{lead}/items/{id} with lead = %q: error %q, %d handler calls, received lead = %q id = %q (path %s)", m.fw, m.lead, res.Err, len(hs), gotLead, gotID, wirePath(res)), replay)
			}
		}
	}
	// ---- one operation with several optional parameters of every kind in every location: random subsets supplied
	{
		var scenarios []map[string]any
		type mm struct {
			fw       string
			supplied map[string]string // name -> JSON text of the value
		}
		ms := map[string]mm{}
		nSub := 6
		if thorough {
			nSub = 40
		}
		for _, fw := range Frameworks {
			name := "par_" + fw + "_multi"
			st := lab.Status[name]
			if st == nil || !st.OK {
				if st != nil {
					r.Violate("lab_package_broken:"+name, trunc(st.GenerateError+" "+st.CompileError, 400), nil)
				}
				continue
			}
			for k := 0; k < nSub; k++ {
				args := map[string]json.RawMessage{}
				supplied := map[string]string{}
				for i, p := range multiParams {
					if k > 0 && rng.Intn(3) == 0 { // the first subset is the full set
						continue
					}
					var v any
					switch p[2] {
					case "pass", "string":
						v = fmt.Sprintf("v%d-%s", i, []string{"alpha", "beta", "gamma"}[rng.Intn(3)])
					case "int":
						v = 100*i + rng.Intn(100)
					case "json":
						v = map[string]string{"k": fmt.Sprintf("j%d", i)}
					}
					b, _ := json.Marshal(v)
					args[p[0]] = b
					supplied[p[0]] = string(b)
				}
				ab, _ := json.Marshal(args)
				id := fmt.Sprintf("%s/multi/%d", name, k)
				scenarios = append(scenarios, map[string]any{"id": id, "pkg": name, "opts": map[string]any{"short_circuit": -1, "strict_short_circuit": -1},
					"client": map[string]any{"fn": "NewMultiRequest", "args": []json.RawMessage{ab}, "then_serve": true, "via_method": len(scenarios)%2 == 1}})
				ms[id] = mm{fw, supplied}
			}
		}
		results, err := lab.Run(scenarios)
		if err != nil {
			r.Violate("lab_run_failed", err.Error(), nil)
		}
		for _, sc := range scenarios {
			id := sc["id"].(string)
			res := results[id]
			m := ms[id]
			replay := map[string]any{"framework": m.fw, "scenario": sc, "supplied": m.supplied}
			r.Count("multi/"+id, true)
			r.Dist["several-parameters-in-one-operation"]++
			if res == nil {
				continue
			}
			var hs []LabEvent
			for _, e := range res.Trace {
				if e.Kind == "handler" {
					hs = append(hs, e)
				}
			}
			if res.Err != "" || len(hs) != 1 {
				r.Violate("roundtrip/"+m.fw+"/several-parameters", fmt.Sprintf("%s /multi: error %q, %d handler calls, status %d %s", m.fw, res.Err, len(hs), res.Status, trunc(res.RespBody, 120)), replay)
				continue
			}
			var got map[string]json.RawMessage
			_ = json.Unmarshal(hs[0].Data["params"], &got)
			var problems []string
			for _, p := range multiParams {
				g := string(got[p[0]])
				if g == "null" {
					g = ""
				}
				want := m.supplied[p[0]]
				if (g == "") != (want == "") || (want != "" && !jsonEqual(json.RawMessage(g), json.RawMessage(want))) {
					problems = append(problems, fmt.Sprintf("%s (%s, %s): supplied %s, received %s", p[0], p[1], p[2], orAbsent(want), orAbsent(g)))
				}
			}
			if len(problems) > 0 {
				r.Violate("roundtrip/"+m.fw+"/several-parameters", fmt.Sprintf("%s /multi: %s", m.fw, strings.Join(problems, "; ")), replay)
			}
		}
	}
	r.Exhaustive = true
	r.Rule = "one operation with 22 optional parameters (pass-through, styled string / integer, JSON content; query, header, cookie; two of each) called with the full set and random subsets; one operation whose path begins with a parameter (values with colons: URN, time, mailto, date-time); one operation with three path variables declared out of path order on both levels (client fills by position, server binds by name); every cell of location x style (incl. defaulted) x explode (default/true/false) x shape (string, int32, int64, double, bool, date, date-time, uuid, array of int, array of string, flat object; JSON-content parameters) x required/optional, for each of the 7 frameworks; per cell k values from a typed generator (integer extremes, strings over ASCII letters/digits, non-ASCII letters, space, URL-reserved punctuation, minus the style's own delimiters) plus the omitted-optional case; request built by the generated client builder, served by the generated server, arguments of the recording stub compared with the supplied ones; non-trivial = value outside plain alphanumerics"
}

func wirePath(r *LabResult) string {
	if r.Wire == nil {
		return ""
	}
	return r.Wire.Path
}

func wireQuery(r *LabResult) string {
	if r.Wire == nil {
		return ""
	}
	q := r.Wire.RawQuery
	if c := r.Wire.Header["Cookie"]; len(c) > 0 {
		q += " Cookie: " + strings.Join(c, "; ")
	}
	for k, v := range r.Wire.Header {
		if strings.HasPrefix(k, "X-") {
			q += " " + k + ": " + strings.Join(v, "|")
		}
	}
	return q
}

// runC04Escape ties Model/Escape.v to net/url: what the generated clients call to escape a value (one path segment, one
// query component) and what the wrappers / the runtime call to unescape it, on byte strings of every class.
func runC04Escape(r *Report, rng *rand.Rand, thorough bool) {
	nl := func(b []byte) string {
		parts := make([]string, len(b))
		for i, c := range b {
			parts[i] = fmt.Sprintf("%d%%N", c)
		}
		return "[" + strings.Join(parts, "; ") + "]"
	}
	opt := func(s string, err error) string {
		if err != nil {
			return "None"
		}
		return "(Some " + nl([]byte(s)) + ")"
	}
	ecases := NewCases("cases_C04_escape", "From Coq Require Import NArith.\nFrom V Require Import Model.Escape Corr.Eval.", "list N * list N * list N", "mismatches_escape")
	ucases := NewCases("cases_C04_unescape", "From Coq Require Import NArith.\nFrom V Require Import Model.Escape Corr.Eval.", "list N * option (list N) * option (list N)", "mismatches_unescape")
	defer ecases.WriteTo(r)
	defer ucases.WriteTo(r)
	n := 300
	if thorough {
		n = 4000
	}
	// every single byte first, then random strings over a pool that favours the reserved characters
	pool := []byte("abcXYZ019-_.~ /?#:@!$&'()*+,;=%[]{}|\\\"<>^`\x00\x7f\x80\xc3\xa9\xe6\x97\xa5\xff")
	var inputs [][]byte
	for b := 0; b < 256; b++ {
		inputs = append(inputs, []byte{byte(b)})
	}
	for i := 0; i < n; i++ {
		l := rng.Intn(9)
		s := make([]byte, l)
		for j := range s {
			s[j] = pool[rng.Intn(len(pool))]
		}
		inputs = append(inputs, s)
	}
	for _, s := range inputs {
		pe, qe := url.PathEscape(string(s)), url.QueryEscape(string(s))
		r.Count("escape/"+string(s), len(s) > 0 && (pe != string(s) || qe != string(s)))
		r.Dist["escape-model-tie"]++
		ecases.Add(fmt.Sprintf("(%s, %s, %s)", nl(s), nl([]byte(pe)), nl([]byte(qe))), map[string]any{"bytes": s})
		// the statement on the implementation: both round trips are the identity
		if back, err := url.PathUnescape(pe); err != nil || back != string(s) {
			r.Violate("path_escape_round_trip", fmt.Sprintf("PathUnescape(PathEscape(%q)) = %q, %v", s, back, err), map[string]any{"bytes": s})
		}
		if back, err := url.QueryUnescape(qe); err != nil || back != string(s) {
			r.Violate("query_escape_round_trip", fmt.Sprintf("QueryUnescape(QueryEscape(%q)) = %q, %v", s, back, err), map[string]any{"bytes": s})
		}
	}
	// the decoders on arbitrary text, well-formed or not (truncated and non-hex escapes are errors)
	upool := []byte("ab%%%2F2fG0+ ~/")
	for i := 0; i < n; i++ {
		l := rng.Intn(8)
		s := make([]byte, l)
		for j := range s {
			s[j] = upool[rng.Intn(len(upool))]
		}
		pu, perr := url.PathUnescape(string(s))
		qu, qerr := url.QueryUnescape(string(s))
		r.Count("unescape/"+string(s), perr != nil || pu != string(s))
		ucases.Add(fmt.Sprintf("(%s, %s, %s)", nl(s), opt(pu, perr), opt(qu, qerr)), map[string]any{"text": string(s)})
	}
}

func orAbsent(s string) string {
	if s == "" {
		return "(absent)"
	}
	return s
}
