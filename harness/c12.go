package main

import (
	"encoding/json"
	"fmt"
	"math/rand"
	"mime"
	"mime/multipart"
	"net/url"
	"regexp"
	"sort"
	"strings"

	"github.com/oapi-codegen/oapi-codegen/v2/pkg/codegen"

	"verif/harness/gendoc"
)

type scell struct {
	Group   string   `json:"group"` // package group: cells that may not compile are kept apart
	Op      string   `json:"op"`
	Status  string   `json:"status"` // "200" "4XX" "default"
	Tag     string   `json:"tag"`    // json vendor text form multipart other wild tagwild none
	CT      string   `json:"content_type"`
	Headers []string `json:"headers"`
	Ref     bool     `json:"ref"`
}

var strictTags = map[string]string{"json": "application/json", "vendor": "application/vnd.api+json", "text": "text/plain",
	"form": "application/x-www-form-urlencoded", "multipart": "multipart/form-data", "mprelated": "multipart/related", "other": "application/octet-stream",
	"wild": "image/*", "tagwild": "application/*+json", "none": "", "jsonopen": "application/json"}

func strictCells() []scell {
	var out []scell
	n := 0
	for _, tag := range []string{"json", "vendor", "text", "form", "multipart", "mprelated", "other", "wild", "tagwild", "none", "jsonopen"} {
		for _, status := range []string{"200", "4XX", "default"} {
			for _, hdrs := range [][]string{nil, {"X-A", "X-N"}} {
				for _, ref := range []bool{false, true} {
					group := "main"
					switch {
					case tag == "text" && (status != "200" || hdrs != nil):
						group = "textopen" // known: type T string has no StatusCode / Headers
					case tag == "tagwild":
						group = "tagwild"
					case tag == "jsonopen":
						group = "open" // JSON body whose schema is a reference to a component with additionalProperties: true
					case ref:
						group = "ref"
					}
					out = append(out, scell{group, fmt.Sprintf("c%d", n), status, tag, strictTags[tag], hdrs, ref})
					n++
				}
			}
		}
	}
	return out
}

func strictSchema(tag string) map[string]any {
	obj := map[string]any{"type": "object", "required": []string{"a"}, "properties": map[string]any{"a": map[string]any{"type": "string"}, "n": map[string]any{"type": "integer"}}}
	switch tag {
	case "text":
		return map[string]any{"type": "string"}
	case "other", "wild":
		return map[string]any{"type": "string", "format": "binary"}
	case "jsonopen":
		return map[string]any{"$ref": "#/components/schemas/Open"}
	}
	return obj
}

func strictSpec(cells []scell) []byte {
	paths := map[string]any{}
	comps := map[string]any{}
	for _, c := range cells {
		resp := map[string]any{"description": "d"}
		if c.Tag != "none" {
			resp["content"] = map[string]any{c.CT: map[string]any{"schema": strictSchema(c.Tag)}}
		}
		if len(c.Headers) > 0 {
			resp["headers"] = map[string]any{"X-A": map[string]any{"schema": map[string]any{"type": "string"}}, "X-N": map[string]any{"schema": map[string]any{"type": "integer"}}}
		}
		var r any = resp
		if c.Ref {
			comps["R"+c.Op] = resp
			r = map[string]any{"$ref": "#/components/responses/R" + c.Op}
		}
		paths["/"+c.Op] = map[string]any{"get": map[string]any{"operationId": c.Op, "responses": map[string]any{c.Status: r}}}
	}
	root := map[string]any{"openapi": "3.0.3", "info": map[string]any{"title": "strict", "version": "1"}, "paths": paths}
	allComps := map[string]any{}
	if len(comps) > 0 {
		allComps["responses"] = comps
	}
	for _, c := range cells {
		if c.Tag == "jsonopen" {
			open := strictSchema("json")
			open["additionalProperties"] = true
			allComps["schemas"] = map[string]any{"Open": open}
		}
	}
	if len(allComps) > 0 {
		root["components"] = allComps
	}
	b, _ := json.Marshal(root)
	return b
}

// declaredOnly: the body without its additional members (a and n are the declared ones)
func declaredOnly(body any) json.RawMessage {
	m, _ := body.(map[string]any)
	out := map[string]any{}
	for _, k := range []string{"a", "n"} {
		if v, ok := m[k]; ok {
			out[k] = v
		}
	}
	b, _ := json.Marshal(out)
	return b
}

// request-side family
func strictReqSpec() []byte {
	obj := strictSchema("json")
	body := func(m map[string]any) map[string]any {
		content := map[string]any{}
		for ct, s := range m {
			content[ct] = map[string]any{"schema": s}
		}
		return map[string]any{"required": true, "content": content}
	}
	ok := map[string]any{"204": map[string]any{"description": "d"}}
	paths := map[string]any{
		"/bjson":  map[string]any{"post": map[string]any{"operationId": "bjson", "requestBody": body(map[string]any{"application/json": obj}), "responses": ok}},
		"/bform":  map[string]any{"post": map[string]any{"operationId": "bform", "requestBody": body(map[string]any{"application/x-www-form-urlencoded": obj}), "responses": ok}},
		"/btext":  map[string]any{"post": map[string]any{"operationId": "btext", "requestBody": body(map[string]any{"text/plain": map[string]any{"type": "string"}}), "responses": ok}},
		"/bmulti": map[string]any{"post": map[string]any{"operationId": "bmulti", "requestBody": body(map[string]any{"multipart/form-data": obj}), "responses": ok}},
		// multipart bodies other than form-data: the handler gets a reader over the parts all the same
		"/bmprel": map[string]any{"post": map[string]any{"operationId": "bmprel", "requestBody": body(map[string]any{"multipart/related": obj}), "responses": ok}},
		"/bmpmix": map[string]any{"post": map[string]any{"operationId": "bmpmix", "requestBody": body(map[string]any{"multipart/mixed": obj}), "responses": ok}},
		"/bother": map[string]any{"post": map[string]any{"operationId": "bother", "requestBody": body(map[string]any{"application/octet-stream": map[string]any{"type": "string", "format": "binary"}}), "responses": ok}},
		// an OPTIONAL JSON body (requestBody.required absent): a body that is sent is decoded all the same
		"/bopt":    map[string]any{"post": map[string]any{"operationId": "bopt", "requestBody": map[string]any{"content": map[string]any{"application/json": map[string]any{"schema": obj}}}, "responses": ok}},
		"/bvendor": map[string]any{"post": map[string]any{"operationId": "bvendor", "requestBody": body(map[string]any{"application/vnd.api+json": obj}), "responses": ok}},
		"/bpatch":  map[string]any{"patch": map[string]any{"operationId": "bpatch", "requestBody": body(map[string]any{"application/merge-patch+json": obj}), "responses": ok}},
		"/bmany":   map[string]any{"post": map[string]any{"operationId": "bmany", "requestBody": body(map[string]any{"application/json": obj, "application/x-www-form-urlencoded": obj, "text/plain": map[string]any{"type": "string"}}), "responses": ok}},
		"/items/{id}": map[string]any{"get": map[string]any{"operationId": "getItem", "parameters": []any{
			map[string]any{"name": "id", "in": "path", "required": true, "schema": map[string]any{"type": "integer"}},
			map[string]any{"name": "q", "in": "query", "schema": map[string]any{"type": "string"}},
			map[string]any{"name": "X-H", "in": "header", "schema": map[string]any{"type": "string"}}}, "responses": ok}},
	}
	b, _ := json.Marshal(map[string]any{"openapi": "3.0.3", "info": map[string]any{"title": "strictreq", "version": "1"}, "paths": paths})
	return b
}

// sortMultipart orders the parts of a recorded multipart body by name (part order is not part of the statement).
func sortMultipart(raw json.RawMessage) json.RawMessage {
	var m map[string][]map[string]string
	if json.Unmarshal(raw, &m) != nil || m["$multipart"] == nil {
		return raw
	}
	parts := m["$multipart"]
	sort.Slice(parts, func(i, j int) bool { return parts[i]["name"] < parts[j]["name"] })
	b, _ := json.Marshal(m)
	return b
}

var typeDeclRe = regexp.MustCompile(`(?m)^type (\w+) (=\s*)?(.*)$`)

// shapeValue arranges the response object's JSON according to the declared shape of the type:
// a wrapper struct (Body / Headers / StatusCode / ContentType fields) takes the fields; a struct
// embedding one component type delegates to it; anything else (schema struct, alias, string,
// func, io.Reader) is the body itself.
func shapeValue(code, typ string, val map[string]any) any {
	body := func() any {
		if b, ok := val["Body"]; ok {
			return b
		}
		return val
	}
	re := regexp.MustCompile(`(?s)\ntype ` + typ + ` (=\s*)?struct\s*\{(.*?)\n?\}`)
	m := re.FindStringSubmatch("\n" + code)
	if m == nil {
		// not a struct: alias of another generated type, or the body type itself
		am := regexp.MustCompile(`(?m)^type ` + typ + ` (=\s*)?(\w+)\s*$`).FindStringSubmatch(code)
		if am != nil && regexp.MustCompile(`(?m)^type `+am[2]+` `).MatchString(code) {
			return shapeValue(code, am[2], val)
		}
		return body()
	}
	fields := strings.TrimSpace(m[2])
	if regexp.MustCompile(`(?m)^\s*(Body|Headers|StatusCode|ContentType)\s`).MatchString(fields) {
		return val
	}
	if em := regexp.MustCompile(`^(\w+)$`).FindStringSubmatch(fields); em != nil {
		inner := shapeValue(code, em[1], val)
		innerIsStruct := underlyingIsStruct(code, em[1], 0)
		if innerIsStruct {
			return inner // promoted fields
		}
		return map[string]any{em[1]: inner}
	}
	if fields == "" && len(val) > 0 && val["Body"] == nil {
		return val
	}
	return body()
}

// underlyingIsStruct follows defined types and aliases (type X Y, type X = Y) down to a struct declaration.
func underlyingIsStruct(code, name string, depth int) bool {
	if depth > 8 {
		return false
	}
	if regexp.MustCompile(`(?m)^type ` + name + ` (=\s*)?struct\b`).MatchString(code) {
		return true
	}
	if am := regexp.MustCompile(`(?m)^type ` + name + ` (=\s*)?(\w+)\s*$`).FindStringSubmatch(code); am != nil {
		return underlyingIsStruct(code, am[2], depth+1)
	}
	return false
}

func isStructDecl(d string) bool { return strings.HasPrefix(d, "struct") }

var coqTag = map[string]string{"jsonopen": "TJson", "json": "TJson", "vendor": "TJson", "text": "TText", "form": "TForm", "multipart": "TMultipart", "mprelated": "TMultipart", "other": "TOther", "wild": "TOther", "tagwild": "TJson"}

func coqCell(c scell) string {
	fs := "None"
	if c.Status == "200" {
		fs = "(Some 200)"
	}
	ct := "None"
	if c.Tag != "none" {
		ct = fmt.Sprintf("(Some {| c_tag := %s; c_type := %s; c_fixed_type := %v |})", coqTag[c.Tag], gendoc.CoqStr(c.CT), !strings.Contains(c.CT, "*"))
	}
	return fmt.Sprintf("{| r_fixed_status := %s; r_headers := %s; r_is_ref := %v; r_content := %s |}", fs, gendoc.CoqStrList(c.Headers), c.Ref, ct)
}

func runC12(r *Report, rng *rand.Rand, thorough bool) {
	// the strict wrapper templates as terms (Gen/Wrappers.v): the model's render against the real template engine
	nT := 5
	if thorough {
		nT = 40
	}
	runStrictTemplateCorrespondence(r, rng, nT)

	cells := strictCells()
	groups := map[string][]scell{}
	for _, c := range cells {
		groups[c.Group] = append(groups[c.Group], c)
	}
	var pkgs []LabPkg
	gnames := make([]string, 0, len(groups))
	for g := range groups {
		gnames = append(gnames, g)
	}
	sort.Strings(gnames)
	for _, g := range gnames {
		for _, fw := range Frameworks {
			pkgs = append(pkgs, LabPkg{Name: fmt.Sprintf("c12_%s_%s", g, fw), Spec: strictSpec(groups[g]), FW: fw,
				Cfg: codegen.Configuration{Generate: fwGenerate(fw, codegen.GenerateOptions{Models: true, Strict: true})}})
		}
	}
	for _, fw := range Frameworks {
		pkgs = append(pkgs, LabPkg{Name: "c12_req_" + fw, Spec: strictReqSpec(), FW: fw,
			Cfg: codegen.Configuration{Generate: fwGenerate(fw, codegen.GenerateOptions{Models: true, Strict: true})}})
	}
	lab, err := BuildLab(labRoot, "c12", pkgs)
	if err != nil {
		r.Violate("lab_build_failed", err.Error(), nil)
		return
	}
	var scenarios []map[string]any
	type meta struct {
		fw   string
		cell scell
		val  map[string]any
		kind string
	}
	metas := map[string]meta{}
	opts := func(m map[string]any) map[string]any {
		m["short_circuit"] = -1
		m["strict_short_circuit"] = -1
		return m
	}
	for _, g := range gnames {
		for _, fw := range Frameworks {
			name := fmt.Sprintf("c12_%s_%s", g, fw)
			st := lab.Status[name]
			if !st.OK {
				r.Violate("lab_package_broken:"+g+"/"+fw, fmt.Sprintf("package %s does not build: %s %s", name, trunc(st.GenerateError, 300), trunc(st.CompileError, 500)), map[string]any{"group": g, "framework": fw})
				continue
			}
			for _, c := range groups[g] {
				// the response type of (operation, status): the only type with that prefix
				re := regexp.MustCompile(`(?m)^type (` + opName(c.Op) + c.Status + `\w*Response)\b`)
				mm := re.FindStringSubmatch(st.Code)
				if mm == nil {
					r.Violate("response_type_missing", fmt.Sprintf("%s: no response type for %s %s", name, c.Op, c.Status), c)
					continue
				}
				nv := 1
				if thorough {
					nv = 8
				}
				for i := 0; i < nv; i++ {
					val := map[string]any{}
					sup := map[string]any{"status": 200, "ctype": c.CT, "hdrs": map[string]string{}}
					switch c.Tag {
					case "json", "vendor", "tagwild":
						val["Body"] = map[string]any{"a": []string{"x", "é\"q", "multi\nline"}[rng.Intn(3)], "n": rng.Intn(100)}
					case "jsonopen":
						val["Body"] = map[string]any{"a": "x", "n": rng.Intn(100), "extra": "more", "zz": []int{1, 2}}
					case "form":
						val["Body"] = map[string]any{"a": []string{"x", "a b&c"}[rng.Intn(2)], "n": rng.Intn(100)}
					case "text":
						// incl. text that a formatting function would read as verbs, and text with line breaks
						val["Body"] = []string{"hello", "ü text", "", "100% sure: %d items, 50%", "a%20b%2Fc %s %v %%", "line one\nline two\r\n"}[rng.Intn(6)]
					case "multipart", "mprelated":
						val["Body"] = map[string]string{"f": "v" + fmt.Sprint(rng.Intn(9))}
					case "other", "wild":
						val["Body"] = "raw-bytes-" + fmt.Sprint(rng.Intn(99))
					}
					if c.Status != "200" {
						code := map[string]int{"4XX": 418, "default": 503}[c.Status]
						val["StatusCode"] = code
						sup["status"] = code
					}
					if strings.Contains(c.CT, "*") {
						ct := map[string]string{"image/*": "image/png", "application/*+json": "application/x+json"}[c.CT]
						val["ContentType"] = ct
						sup["ctype"] = ct
					}
					if len(c.Headers) > 0 {
						n := rng.Intn(1000)
						val["Headers"] = map[string]any{"XA": "v1", "XN": n}
						sup["hdrs"] = map[string]string{"X-A": "v1", "X-N": fmt.Sprint(n)}
					}
					// alias-shaped types take the body value directly; a struct embedding a
					// non-struct component type takes it under the embedded type's name
					var raw any = shapeValue(st.Code, mm[1], val)
					id := fmt.Sprintf("%s/%s/%d", name, c.Op, i)
					scenarios = append(scenarios, map[string]any{"id": id, "pkg": name, "req": map[string]any{"method": "GET", "target": "/" + c.Op},
						"opts": opts(map[string]any{"strict_response_type": mm[1], "strict_response_json": raw, "strict_middlewares": i % 2})})
					metas[id] = meta{fw, c, map[string]any{"value": val, "supplied": sup, "type": mm[1]}, "response"}
					if i == 0 {
						// the handler hands back a response object of the operation TOGETHER WITH an error: the error decides
						id2 := id + "/with-error"
						scenarios = append(scenarios, map[string]any{"id": id2, "pkg": name, "req": map[string]any{"method": "GET", "target": "/" + c.Op},
							"opts": opts(map[string]any{"strict_response_type": mm[1], "strict_response_json": raw, "strict_handler_error_with_response": true})})
						metas[id2] = meta{fw, c, nil, "handler-error"}
						r.Dist["handler_error_together_with_a_response_object"]++
					}
				}
				// handler error -> error path
				id := fmt.Sprintf("%s/%s/err", name, c.Op)
				scenarios = append(scenarios, map[string]any{"id": id, "pkg": name, "req": map[string]any{"method": "GET", "target": "/" + c.Op},
					"opts": opts(map[string]any{"strict_handler_error": true})})
				metas[id] = meta{fw, c, nil, "handler-error"}
				// a strict middleware hands back something that is no response object of the operation -> error path
				id = fmt.Sprintf("%s/%s/foreign", name, c.Op)
				scenarios = append(scenarios, map[string]any{"id": id, "pkg": name, "req": map[string]any{"method": "GET", "target": "/" + c.Op},
					"opts": opts(map[string]any{"strict_foreign": true, "strict_middlewares": 1 + len(scenarios)%2})})
				metas[id] = meta{fw, c, nil, "foreign-response"}
			}
		}
	}
	// request side
	mpBody, mpCT := func() (string, string) {
		var sb strings.Builder
		w := multipart.NewWriter(&sb)
		_ = w.WriteField("a", "x")
		_ = w.WriteField("n", "3")
		_ = w.Close()
		return sb.String(), w.FormDataContentType()
	}()
	type reqCase struct {
		op, ct, body string
		declared     []string
		wantField    string
		want         any
		method       string // POST when empty
		reject       bool   // malformed body: no handler call, status 400
		chunked      bool   // sent with chunked transfer encoding (length unknown)
	}
	reqCases := []reqCase{
		{"bjson", "application/json", `{"a":"é","n":3}`, []string{"application/json"}, "Body", map[string]any{"a": "é", "n": 3}, "", false, false},
		{"bjson", "application/json; charset=utf-8", `{"a":"x"}`, []string{"application/json"}, "Body", map[string]any{"a": "x"}, "", false, false},
		{"bform", "application/x-www-form-urlencoded", "a=a+b%26c&n=3", []string{"application/x-www-form-urlencoded"}, "Body", map[string]any{"a": "a b&c", "n": 3}, "", false, false},
		{"btext", "text/plain", "plain ü", []string{"text/plain"}, "Body", "plain ü", "", false, false},
		{"bmulti", mpCT, mpBody, []string{"multipart/form-data"}, "Body", map[string]any{"$multipart": []any{map[string]any{"name": "a", "value": "x"}, map[string]any{"name": "n", "value": "3"}}}, "", false, false},
		{"bmprel", strings.Replace(mpCT, "multipart/form-data", "multipart/related", 1), mpBody, []string{"multipart/related"}, "Body", map[string]any{"$multipart": []any{map[string]any{"name": "a", "value": "x"}, map[string]any{"name": "n", "value": "3"}}}, "", false, false},
		{"bmpmix", strings.Replace(mpCT, "multipart/form-data", "multipart/mixed", 1), mpBody, []string{"multipart/mixed"}, "Body", map[string]any{"$multipart": []any{map[string]any{"name": "a", "value": "x"}, map[string]any{"name": "n", "value": "3"}}}, "", false, false},
		{"bother", "application/octet-stream", "rawbytes", []string{"application/octet-stream"}, "Body", map[string]any{"$reader": "rawbytes"}, "", false, false},
		{"bmany", "application/json", `{"a":"j"}`, []string{"application/json", "application/x-www-form-urlencoded", "text/plain"}, "JSONBody", map[string]any{"a": "j"}, "", false, false},
		{"bmany", "application/x-www-form-urlencoded", "a=f", []string{"application/json", "application/x-www-form-urlencoded", "text/plain"}, "FormdataBody", map[string]any{"a": "f"}, "", false, false},
		{"bmany", "text/plain; charset=utf-8", "t", []string{"application/json", "application/x-www-form-urlencoded", "text/plain"}, "TextBody", "t", "", false, false},
		{"bmany", "application/xml", "<x/>", []string{"application/json", "application/x-www-form-urlencoded", "text/plain"}, "", nil, "", false, false},
		// JSON media types other than application/json, on POST and PATCH; a malformed document is rejected
		{"bvendor", "application/vnd.api+json", `{"a":"v","n":7}`, []string{"application/vnd.api+json"}, "Body", map[string]any{"a": "v", "n": 7}, "", false, false},
		{"bvendor", "application/vnd.api+json; charset=utf-8", `{"a":"w"}`, []string{"application/vnd.api+json"}, "Body", map[string]any{"a": "w"}, "", false, false},
		{"bvendor", "application/vnd.api+json", `{"a":`, []string{"application/vnd.api+json"}, "", nil, "", true, false},
		{"bpatch", "application/merge-patch+json", `{"a":"p","n":1}`, []string{"application/merge-patch+json"}, "Body", map[string]any{"a": "p", "n": 1}, "PATCH", false, false},
		{"bjson", "application/json", `{"a":`, []string{"application/json"}, "", nil, "", true, false},
		// bodies that arrive chunked (a streaming client, a re-chunking proxy): decoded like any other
		{"bjson", "application/json", `{"a":"chunked","n":5}`, []string{"application/json"}, "Body", map[string]any{"a": "chunked", "n": 5}, "", false, true},
		{"bvendor", "application/vnd.api+json", `{"a":"chunked"}`, []string{"application/vnd.api+json"}, "Body", map[string]any{"a": "chunked"}, "", false, true},
		{"bform", "application/x-www-form-urlencoded", "a=ch&n=1", []string{"application/x-www-form-urlencoded"}, "Body", map[string]any{"a": "ch", "n": 1}, "", false, true},
		{"btext", "text/plain", "chunked text", []string{"text/plain"}, "Body", "chunked text", "", false, true},
		{"bopt", "application/json", `{"a":"opt","n":2}`, []string{"application/json"}, "Body", map[string]any{"a": "opt", "n": 2}, "", false, false},
		{"bopt", "application/json", `{"a":"opt-chunked"}`, []string{"application/json"}, "Body", map[string]any{"a": "opt-chunked"}, "", false, true},
	}
	for _, fw := range Frameworks {
		name := "c12_req_" + fw
		if !lab.Status[name].OK {
			st := lab.Status[name]
			r.Violate("lab_package_broken:req/"+fw, fmt.Sprintf("package %s does not build: %s %s", name, trunc(st.GenerateError, 300), trunc(st.CompileError, 500)), nil)
			continue
		}
		for i, rc := range reqCases {
			id := fmt.Sprintf("%s/req%d", name, i)
			method := rc.method
			if method == "" {
				method = "POST"
			}
			scenarios = append(scenarios, map[string]any{"id": id, "pkg": name, "opts": opts(map[string]any{}),
				"req": map[string]any{"method": method, "target": "/" + rc.op, "header": map[string][]string{"Content-Type": {rc.ct}}, "body": rc.body, "chunked": rc.chunked}})
			metas[id] = meta{fw, scell{Op: rc.op}, map[string]any{"i": i}, "request"}
		}
		id := name + "/params"
		scenarios = append(scenarios, map[string]any{"id": id, "pkg": name, "opts": opts(map[string]any{}),
			"req": map[string]any{"method": "GET", "target": "/items/42?q=" + url.QueryEscape("a b"), "header": map[string][]string{"X-H": {"hv"}}}})
		metas[id] = meta{fw, scell{Op: "getItem"}, nil, "params"}
	}
	results, err := lab.Run(scenarios)
	if err != nil {
		r.Violate("lab_run_failed", err.Error(), nil)
		return
	}
	vcases := NewCases("cases_C12_visit", "From V Require Import Model.Strict Corr.Eval.", "rcell * supplied * (nat * option string * list (string * string))", "mismatches_visit")
	tcases := NewCases("cases_C12_tail", "From V Require Import Model.Strict Corr.Eval.", "chain_result * bool", "mismatches_tail")
	defer tcases.WriteTo(r)
	bcases := NewCases("cases_C12_bodies", "From V Require Import Model.Strict Corr.Eval.", "list string * string * list string", "mismatches_bodies")
	for _, sc := range scenarios {
		id := sc["id"].(string)
		m := metas[id]
		res := results[id]
		replay := map[string]any{"framework": m.fw, "cell": m.cell, "scenario": sc}
		if res == nil || res.Err != "" {
			e := "no result"
			if res != nil {
				e = res.Err
			}
			r.Violate("scenario_error/"+m.kind, id+": "+e, replay)
			continue
		}
		handlers := 0
		var hev LabEvent
		for _, e := range res.Trace {
			if e.Kind == "handler" {
				handlers++
				hev = e
			}
		}
		r.Count(id+fmt.Sprint(m.val), m.kind == "response" && (m.cell.Status != "200" || len(m.cell.Headers) > 0 || m.cell.Tag != "json"))
		r.Dist["kind="+m.kind]++
		r.Dist["fw="+m.fw]++
		switch m.kind {
		case "handler-error":
			tcases.Add(fmt.Sprintf("(RError, %v)", res.Status >= 400), replay)
			if handlers != 1 || res.Status < 400 {
				r.Violate("handler_error_not_on_error_path/"+m.fw, fmt.Sprintf("%s: handler returned an error; status %d", id, res.Status), replay)
			}
		case "foreign-response":
			tcases.Add(fmt.Sprintf("(RForeign, %v)", res.Status >= 400), replay)
			r.Dist["response=foreign-type-from-strict-middleware"]++
			if res.Status < 400 {
				r.Violate("foreign_response_type_not_on_error_path/"+m.fw, fmt.Sprintf("%s: a strict middleware returned a value that is no response object of the operation; status %d, body %q", id, res.Status, trunc(res.RespBody, 80)), replay)
			}
		case "params":
			var req map[string]json.RawMessage
			_ = json.Unmarshal(hev.Data["request"], &req)
			var idv int
			_ = json.Unmarshal(req["Id"], &idv)
			var params map[string]any
			_ = json.Unmarshal(req["Params"], &params)
			if handlers != 1 || idv != 42 || params["q"] != "a b" || params["X-H"] != "hv" {
				r.Violate("request_object_parameters/"+m.fw, fmt.Sprintf("%s: request object %s", id, string(hev.Data["request"])), replay)
			}
		case "request":
			rc := reqCases[m.val["i"].(int)]
			// echo's strict wrapper decodes JSON bodies with ctx.Bind, whose default binder knows application/json only: a
			// declared +json media type is answered 415 before the handler (recorded; any other outcome is judged below)
			if m.fw == "echo" && res.Status == 415 && handlers == 0 && strings.Contains(rc.ct, "+json") && !strings.HasPrefix(rc.ct, "application/json") {
				r.Violate("echo_strict_plus_json_request_body_unsupported_media_type", fmt.Sprintf("%s: %s body declared as %s sent with Content-Type %q: status 415, handler not called", id, rc.op, rc.declared[0], rc.ct), replay)
				continue
			}
			if rc.reject {
				r.Dist["request=malformed-body"]++
				if handlers != 0 || res.Status != 400 {
					r.Violate("malformed_request_body_not_rejected/"+m.fw+"/"+rc.op, fmt.Sprintf("%s: Content-Type %q body %q: handler calls %d, status %d, want no call and 400", id, rc.ct, rc.body, handlers, res.Status), replay)
				}
				continue
			}
			var req map[string]json.RawMessage
			_ = json.Unmarshal(hev.Data["request"], &req)
			var set []string
			for k := range req {
				if strings.HasSuffix(k, "Body") {
					set = append(set, k)
				}
			}
			sort.Strings(set)
			// model: which declared bodies are decoded
			var decoded []string
			for _, f := range set {
				switch f {
				case "Body":
					decoded = append(decoded, rc.declared[0])
				case "JSONBody":
					decoded = append(decoded, "application/json")
				case "FormdataBody":
					decoded = append(decoded, "application/x-www-form-urlencoded")
				case "TextBody":
					decoded = append(decoded, "text/plain")
				}
			}
			mt, _, _ := mime.ParseMediaType(rc.ct)
			_ = mt
			if handlers == 1 {
				bcases.Add(fmt.Sprintf("(%s, %s, %s)", gendoc.CoqStrList(rc.declared), gendoc.CoqStr(rc.ct), gendoc.CoqStrList(decoded)), replay)
			}
			want := rc.wantField
			got := strings.Join(set, ",")
			okv := true
			if want != "" && len(set) == 1 {
				wb, _ := json.Marshal(rc.want)
				okv = jsonEqual(sortMultipart(req[want]), sortMultipart(wb))
			}
			if handlers != 1 || got != want || !okv {
				r.Violate("request_body_decoding/"+m.fw+"/"+rc.op, fmt.Sprintf("%s: Content-Type %q: handler calls %d, body fields set %v with %s, want %s = %v (status %d)", id, rc.ct, handlers, set, string(hev.Data["request"]), want, rc.want, res.Status), replay)
			}
		case "response":
			sup := m.val["supplied"].(map[string]any)
			wantStatus := sup["status"].(int)
			if wantStatus < 400 {
				tcases.Add(fmt.Sprintf("(RValid, %v)", res.Status >= 400), replay)
			}
			wantCT := sup["ctype"].(string)
			wantH := sup["hdrs"].(map[string]string)
			gotCT := strings.Join(res.RespHeader["Content-Type"], ",")
			val := m.val["value"].(map[string]any)
			var problems []string
			if handlers != 1 {
				problems = append(problems, fmt.Sprintf("handler calls %d", handlers))
			}
			if res.Status != wantStatus {
				problems = append(problems, fmt.Sprintf("status %d, want %d", res.Status, wantStatus))
			}
			ctOK := gotCT == wantCT
			if bt, _, err := mime.ParseMediaType(gotCT); err == nil && bt == wantCT {
				ctOK = true // parameters such as charset do not change the media type
			}
			if m.cell.Tag == "multipart" || m.cell.Tag == "mprelated" {
				ctOK = strings.HasPrefix(gotCT, m.cell.CT+"; boundary=")
			}
			if m.cell.Tag == "none" {
				ctOK = true
			}
			if m.cell.Tag == "text" && strings.HasPrefix(gotCT, "text/plain") {
				ctOK = true // frameworks may append a charset to text types
			}
			if !ctOK {
				problems = append(problems, fmt.Sprintf("Content-Type %q, want %q", gotCT, wantCT))
			}
			var obsH []string
			for _, h := range m.cell.Headers {
				g := strings.Join(res.RespHeader[h], ",")
				obsH = append(obsH, "("+gendoc.CoqStr(h)+", "+gendoc.CoqStr(g)+")")
				if g != wantH[h] {
					problems = append(problems, fmt.Sprintf("header %s = %q, want %q", h, g, wantH[h]))
				}
			}
			// body
			switch m.cell.Tag {
			case "json", "vendor", "tagwild", "jsonopen":
				wb, _ := json.Marshal(val["Body"])
				if !jsonEqual(json.RawMessage(res.RespBody), wb) {
					problems = append(problems, fmt.Sprintf("body %q, want JSON %s", res.RespBody, wb))
				}
			case "text", "other", "wild":
				if res.RespBody != val["Body"].(string) {
					problems = append(problems, fmt.Sprintf("body %q, want %q", res.RespBody, val["Body"]))
				}
			case "form":
				q, err := url.ParseQuery(res.RespBody)
				b := val["Body"].(map[string]any)
				if err != nil || q.Get("a") != b["a"].(string) || q.Get("n") != fmt.Sprint(b["n"]) {
					problems = append(problems, fmt.Sprintf("form body %q, want %v", res.RespBody, b))
				}
			case "multipart", "mprelated":
				if !strings.Contains(res.RespBody, val["Body"].(map[string]string)["f"]) {
					problems = append(problems, "multipart body lacks the field")
				}
			case "none":
				if res.RespBody != "" {
					problems = append(problems, "body written for a no-content response")
				}
			}
			if len(r.Samples) < 3 && len(m.cell.Headers) > 0 && m.cell.Status != "200" {
				r.Sample(map[string]any{"framework": m.fw, "cell": m.cell, "response_object": val, "written_status": res.Status, "written_headers": res.RespHeader, "written_body": res.RespBody})
			}
			if len(problems) > 0 {
				sig := fmt.Sprintf("strict_response/%s/%s/%s/ref=%v/headers=%v", m.fw, m.cell.Tag, m.cell.Status, m.cell.Ref, len(m.cell.Headers) > 0)
				switch {
				case m.cell.Tag == "form" && m.cell.Ref && m.cell.Status == "200" && len(m.cell.Headers) == 0 && len(problems) == 1 && strings.Contains(problems[0], "%5Ba%5D"):
					sig = "referenced_form_response_keys_bracketed"
				case (m.fw == "fiber" || m.fw == "iris") && m.cell.Tag == "vendor" && len(problems) == 1 && strings.HasPrefix(problems[0], `Content-Type "application/json`):
					sig = m.fw + "_vendor_json_content_type_overwritten"
				case m.cell.Tag == "jsonopen" && len(problems) == 1 && strings.HasPrefix(problems[0], "body ") && jsonEqual(json.RawMessage(res.RespBody), declaredOnly(val["Body"])):
					// the response type is a defined type over the referenced schema's type (type T Open): it does not inherit
					// Open's MarshalJSON, so the additional members the handler supplied are not written
					sig = "strict_json_response_of_referenced_schema_loses_additional_members"
				case m.fw == "iris" && m.cell.Tag == "none" && m.cell.Status != "200" && len(problems) == 1 && strings.HasPrefix(problems[0], "body written"):
					sig = "iris_writes_error_body_for_no_content_error_status"
				}
				r.Violate(sig, fmt.Sprintf("%s %v: %s", id, m.cell, strings.Join(problems, "; ")), replay)
				continue
			}
			// model case (status, content type, headers)
			ctObs := "None"
			if m.cell.Tag != "none" {
				ct := gotCT
				if bt, _, err := mime.ParseMediaType(gotCT); err == nil && !strings.Contains(wantCT, ";") {
					ct = bt
				}
				if m.cell.Tag == "multipart" || m.cell.Tag == "mprelated" {
					ct = m.cell.CT
				}
				if m.cell.Tag == "text" {
					ct = "text/plain"
				}
				ctObs = "(Some " + gendoc.CoqStr(ct) + ")"
			}
			var supH []string
			for _, h := range m.cell.Headers {
				supH = append(supH, "("+gendoc.CoqStr(h)+", "+gendoc.CoqStr(wantH[h])+")")
			}
			sort.Sort(sort.Reverse(sort.StringSlice(supH)))
			vcases.Add(fmt.Sprintf("(%s, {| s_status := %d; s_ctype := %s; s_headers := [%s]; s_body := \"\"%%string |}, (%d, %s, [%s]))",
				coqCell(m.cell), wantStatus, gendoc.CoqStr(wantCT), strings.Join(supH, "; "), res.Status, ctObs, strings.Join(obsH, "; ")), replay)
		}
	}
	vcases.WriteTo(r)
	bcases.WriteTo(r)
	r.Exhaustive = true
	r.Rule = "response cells: media type {application/json, vendor +json, text/plain, form, multipart/form-data, multipart/related, octet-stream, image/* (wildcard), application/*+json (tagged wildcard), no content} x status {200, 4XX, default} x headers {none, two} x {inline, component reference}, plus JSON bodies whose schema is a reference to a component with additionalProperties: true (additional members supplied by the handler), each returned by a recording strict handler of each of the 7 frameworks with generated values (and with / without a strict middleware); observed status, Content-Type, headers and body vs the declaration and vs the model in Coq; handler error -> error path; request side: JSON (+charset), vendor +json on POST and merge-patch+json on PATCH, malformed JSON documents (rejected with 400), bodies arriving with chunked transfer encoding, form, text, multipart (form-data, related, mixed), octet-stream and multi-body operations x Content-Types incl. undeclared, path/query/header parameters in the request object; non-trivial = not the plain JSON 200 cell"
}
