package main

import (
	"bytes"
	"encoding/json"
	"fmt"
	"io"
	"math/rand"
	"os"
	"os/exec"
	"strings"

	"github.com/oapi-codegen/oapi-codegen/v2/pkg/codegen"

	"verif/harness/gendoc"
)

// genCall is one call of codegen.Generate.
type genCall struct {
	Label string                `json:"label"`
	Spec  json.RawMessage       `json:"spec"`
	Cfg   codegen.Configuration `json:"cfg"`
}

func (c genCall) run() string {
	code, err := generate(c.Spec, c.Cfg)
	if err != nil {
		return "ERROR: " + err.Error()
	}
	return code
}

// runOnOneDocument loads the document once and generates from that one loaded value n times: a program that holds a
// loaded specification (a build tool generating several packages, a test) calls Generate again with what it has.
func (c genCall) runOnOneDocument(n int) (outs []string) {
	spec, err := loadSpec(c.Spec)
	if err != nil {
		return []string{"ERROR: load: " + err.Error()}
	}
	for i := 0; i < n; i++ {
		func() {
			defer func() {
				if p := recover(); p != nil {
					outs = append(outs, fmt.Sprintf("ERROR: PANIC: %v", p))
				}
			}()
			code, err := codegen.Generate(spec, c.Cfg)
			if err != nil {
				outs = append(outs, "ERROR: "+err.Error())
				return
			}
			outs = append(outs, code)
		}()
	}
	return outs
}

// runFresh runs the call in a fresh process (this binary, mode gen1).
func (c genCall) runFresh() (string, error) {
	b, _ := json.Marshal(c)
	cmd := exec.Command(os.Args[0], "-prop", "gen1", "-out", os.TempDir())
	cmd.Stdin = bytes.NewReader(b)
	var out, errb bytes.Buffer
	cmd.Stdout, cmd.Stderr = &out, &errb
	if err := cmd.Run(); err != nil {
		return "", fmt.Errorf("fresh process: %v: %s", err, errb.String())
	}
	return out.String(), nil
}

func runGen1() {
	b, _ := io.ReadAll(os.Stdin)
	var c genCall
	must(json.Unmarshal(b, &c))
	fmt.Print(c.run())
}

const c17SpecA = `{"openapi":"3.0.3","info":{"title":"a","version":"1"},
"paths":{"/things/{id}":{"get":{"operationId":"get_thing_by_id","tags":["t1"],"parameters":[{"name":"id","in":"path","required":true,"schema":{"type":"string"}}],
 "responses":{"200":{"description":"ok","content":{"application/json":{"schema":{"$ref":"#/components/schemas/Thing"}}}},"default":{"description":"e","content":{"application/json":{"schema":{"$ref":"#/components/schemas/Err"}}}}}},
 "put":{"operationId":"putThingHttpUrl","tags":["t2"],"parameters":[{"name":"id","in":"path","required":true,"schema":{"type":"string"}}],"requestBody":{"content":{"application/json":{"schema":{"$ref":"#/components/schemas/Thing"}}}},"responses":{"204":{"description":"ok"}}}}},
"components":{"schemas":{"Thing":{"type":"object","required":["name"],"properties":{"name":{"type":"string"},"api_url":{"type":"string"},"kind":{"type":"string","enum":["a","b"]},"ext":{"$ref":"other.yaml#/components/schemas/Ext"}}},
 "Err":{"type":"object","properties":{"code":{"type":"integer"}}},"Unused":{"type":"object","properties":{"x":{"type":"integer","nullable":true}}}}}}`

const c17SpecB = `{"openapi":"3.0.3","info":{"title":"b","version":"1"},
"paths":{"/pets":{"post":{"operationId":"addPet","requestBody":{"content":{"application/json":{"schema":{"$ref":"#/components/schemas/Pet"}}}},
 "responses":{"201":{"description":"ok","content":{"application/json":{"schema":{"$ref":"#/components/schemas/Pet"}}}}}}}},
"components":{"schemas":{"Pet":{"type":"object","properties":{"id":{"type":"integer","format":"int64"},"tag":{"type":"string"}}}}}}`

// document A with its component types renamed (x-go-name): the same $ref strings resolve to other Go names
var c17SpecRenamed = strings.NewReplacer(`"Err":{"type":"object",`, `"Err":{"x-go-name":"BillingFault","type":"object",`,
	`"Thing":{"type":"object",`, `"Thing":{"x-go-name":"Gizmo","type":"object",`).Replace(c17SpecA)

// the renamed document with one more path whose template variable is not declared: generation fails late, after
// the references of the earlier paths have been resolved
var c17SpecRenamedFailsLate = strings.Replace(c17SpecRenamed, `"paths":{`, `"paths":{"/zz/{undeclared}":{"get":{"operationId":"zz","responses":{"204":{"description":"ok"}}}},`, 1)

// a document on which generation fails after the prologue (two schemas normalising to one type name)
const c17SpecDup = `{"openapi":"3.0.3","info":{"title":"d","version":"1"},"paths":{},
"components":{"schemas":{"foo_bar":{"type":"object","properties":{"a":{"type":"string"}}},"FooBar":{"type":"object","properties":{"b":{"type":"integer"}}}}}}`

// c17Variants: every option that could leak through package-level state, each with a
// non-default value. The base configuration is the first entry.
func c17Variants() []genCall {
	other := `{"openapi":"3.0.3","info":{"title":"o","version":"1"},"paths":{},"components":{"schemas":{"Ext":{"type":"string"}}}}`
	base := func() codegen.Configuration {
		return codegen.Configuration{PackageName: "gen", Generate: codegen.GenerateOptions{EchoServer: true, Client: true, Models: true, EmbeddedSpec: true},
			ImportMapping: map[string]string{"other.yaml": "example.com/other"}}
	}
	var out []genCall
	add := func(label, spec string, f func(*codegen.Configuration)) {
		c := base()
		if f != nil {
			f(&c)
		}
		out = append(out, genCall{Label: label, Spec: json.RawMessage(spec), Cfg: c})
	}
	add("base/A", c17SpecA, nil)
	add("base/B", c17SpecB, func(c *codegen.Configuration) { c.ImportMapping = nil })
	add("response-type-suffix=Resp", c17SpecA, func(c *codegen.Configuration) { c.OutputOptions.ResponseTypeSuffix = "Resp" })
	add("name-normalizer=ToCamelCaseWithInitialisms", c17SpecA, func(c *codegen.Configuration) { c.OutputOptions.NameNormalizer = "ToCamelCaseWithInitialisms" })
	add("name-normalizer=ToCamelCaseWithDigits", c17SpecA, func(c *codegen.Configuration) { c.OutputOptions.NameNormalizer = "ToCamelCaseWithDigits" })
	add("name-normalizer=bogus (fails in the prologue)", c17SpecA, func(c *codegen.Configuration) { c.OutputOptions.NameNormalizer = "bogus" })
	add("client-type-name=MyClient", c17SpecA, func(c *codegen.Configuration) { c.OutputOptions.ClientTypeName = "MyClient" })
	add("import-mapping other package", c17SpecA, func(c *codegen.Configuration) {
		c.ImportMapping = map[string]string{"other.yaml": "example.com/elsewhere", "third.yaml": "example.com/third"}
	})
	add("old-merge-schemas", c17SpecA, func(c *codegen.Configuration) { c.Compatibility.OldMergeSchemas = true })
	add("old-enum-conflicts", c17SpecA, func(c *codegen.Configuration) { c.Compatibility.OldEnumConflicts = true })
	add("old-aliasing", c17SpecA, func(c *codegen.Configuration) { c.Compatibility.OldAliasing = true })
	add("always-prefix-enum-values", c17SpecA, func(c *codegen.Configuration) { c.Compatibility.AlwaysPrefixEnumValues = true })
	add("disable-required-readonly-as-pointer", c17SpecA, func(c *codegen.Configuration) { c.Compatibility.DisableRequiredReadOnlyAsPointer = true })
	add("disable-flatten-additional-properties", c17SpecA, func(c *codegen.Configuration) { c.Compatibility.DisableFlattenAdditionalProperties = true })
	add("nullable-type", c17SpecA, func(c *codegen.Configuration) { c.OutputOptions.NullableType = true })
	add("initialism-overrides", c17SpecA, func(c *codegen.Configuration) { c.OutputOptions.InitialismOverrides = true })
	add("skip-prune", c17SpecA, func(c *codegen.Configuration) { c.OutputOptions.SkipPrune = true })
	add("skip-fmt", c17SpecA, func(c *codegen.Configuration) { c.OutputOptions.SkipFmt = true })
	add("exclude-schemas", c17SpecA, func(c *codegen.Configuration) { c.OutputOptions.ExcludeSchemas = []string{"Err"} })
	add("include-tags", c17SpecA, func(c *codegen.Configuration) { c.OutputOptions.IncludeTags = []string{"t1"} })
	add("exclude-operation-ids", c17SpecA, func(c *codegen.Configuration) { c.OutputOptions.ExcludeOperationIDs = []string{"putThingHttpUrl"} })
	add("user-templates typedef", c17SpecA, func(c *codegen.Configuration) {
		c.OutputOptions.UserTemplates = map[string]string{"typedef.tmpl": "{{range .Types}}\n// custom {{.TypeName}}\ntype {{.TypeName}} {{if .IsAlias }}={{end}} {{.Schema.TypeDecl}}\n{{end}}"}
	})
	add("user-templates broken (fails)", c17SpecA, func(c *codegen.Configuration) {
		c.OutputOptions.UserTemplates = map[string]string{"typedef.tmpl": "{{range .Types}\nbroken\n"}
	})
	add("user-templates fail while executing, after writing text", c17SpecA, func(c *codegen.Configuration) {
		c.OutputOptions.UserTemplates = map[string]string{"typedef.tmpl": "// ---- leftover banner ----\n{{range .Types}}// leftover {{.TypeName}}\n{{end}}{{index .Types 9999}}"}
	})
	add("user-templates of the client fail while executing, after writing text", c17SpecA, func(c *codegen.Configuration) {
		c.OutputOptions.UserTemplates = map[string]string{"client.tmpl": "// ---- leftover client banner ----\n{{range .}}// leftover {{.OperationId}}\n{{end}}{{index . 9999}}"}
	})
	add("chi+strict", c17SpecA, func(c *codegen.Configuration) {
		c.Generate = codegen.GenerateOptions{ChiServer: true, Strict: true, Models: true}
	})
	add("apply-chi-middleware-first-to-last", c17SpecA, func(c *codegen.Configuration) {
		c.Generate = codegen.GenerateOptions{ChiServer: true, Models: true}
		c.Compatibility.ApplyChiMiddlewareFirstToLast = true
	})
	add("additional-imports", c17SpecA, func(c *codegen.Configuration) {
		c.AdditionalImports = []codegen.AdditionalImport{{Alias: "x", Package: "example.com/x"}}
	})
	add("same $refs, other Go names (x-go-name)", c17SpecRenamed, nil)
	add("same $refs, other Go names, fails late", c17SpecRenamedFailsLate, nil)
	add("duplicate type names (fails after the prologue)", c17SpecDup, func(c *codegen.Configuration) { c.ImportMapping = nil })
	// documents without operations (types only, or every operation filtered out), with imports of their own, unformatted
	typesOnly := func(c *codegen.Configuration) {
		c.Generate = codegen.GenerateOptions{Models: true}
		c.OutputOptions.SkipPrune = true
		c.ImportMapping = nil
	}
	add("types only, x-go-type-import", `{"openapi":"3.0.3","info":{"title":"t","version":"1"},"paths":{},"components":{"schemas":{"Price":{"type":"string","x-go-type":"decimal.Decimal","x-go-type-import":{"path":"github.com/shopspring/decimal"}},"When":{"type":"string","format":"date-time"}}}}`, typesOnly)
	add("types only, x-go-type-import, skip-fmt", `{"openapi":"3.0.3","info":{"title":"t","version":"1"},"paths":{},"components":{"schemas":{"Id":{"type":"string","x-go-type":"ulid.ULID","x-go-type-import":{"path":"github.com/oklog/ulid/v2","name":"ulid"}}}}}`, func(c *codegen.Configuration) {
		typesOnly(c)
		c.OutputOptions.SkipFmt = true
	})
	add("types only, skip-fmt", other, func(c *codegen.Configuration) {
		typesOnly(c)
		c.OutputOptions.SkipFmt = true
	})
	add("every operation filtered out, skip-fmt", c17SpecA, func(c *codegen.Configuration) {
		c.OutputOptions.IncludeTags = []string{"no-such-tag"}
		c.OutputOptions.SkipFmt = true
	})
	add("disable-type-aliases-for-type=array", c17SpecA, func(c *codegen.Configuration) { c.OutputOptions.DisableTypeAliasesForType = []string{"array"} })
	return out
}

func runC17(r *Report, rng *rand.Rand, thorough bool) {
	vs := c17Variants()
	fresh := map[string]string{}
	for _, v := range vs {
		out, err := v.runFresh()
		if err != nil {
			r.Notes = append(r.Notes, err.Error())
			r.Violate("fresh_process_failed", err.Error(), v)
			r.Write()
			return
		}
		fresh[v.Label] = out
	}
	// state trajectory (model tie): suffix after every call
	cases := NewCases("cases_C17", "From V Require Import Model.History Gen.Globals Corr.Eval.",
		"list suffix_call * list string", "mismatches_suffix")
	var hist []string
	var observed []string
	suffixSeen := false // the whole process is one history
	check := func(history []genCall, last genCall) {
		// in-process: run the history, then the observed call
		var labels []string
		for _, h := range history {
			_ = h.run()
			if h.Cfg.OutputOptions.ResponseTypeSuffix != "" {
				suffixSeen = true
			}
			reached := true // the unknown-normaliser error is raised after the suffix is written
			hist = append(hist, fmt.Sprintf("(%s, %v)", gendoc.CoqStr(h.Cfg.OutputOptions.ResponseTypeSuffix), reached))
			observed = append(observed, codegen.VerifResponseTypeSuffix())
			labels = append(labels, h.Label)
		}
		got := last.run()
		hist = append(hist, fmt.Sprintf("(%s, %v)", gendoc.CoqStr(last.Cfg.OutputOptions.ResponseTypeSuffix), true))
		observed = append(observed, codegen.VerifResponseTypeSuffix())
		key := strings.Join(labels, " ; ") + " => " + last.Label
		differs := got != fresh[last.Label]
		r.Count(key, len(history) > 0)
		if len(r.Samples) < 3 {
			r.Sample(map[string]any{"history": labels, "observed_call": last.Label, "equal_to_fresh_process": !differs})
		}
		if differs {
			sig := "history_changes_output"
			if suffixSeen && last.Cfg.OutputOptions.ResponseTypeSuffix == "" && strings.Contains(firstLineDiff(fresh[last.Label], got), "Resp") {
				sig = "response_type_suffix_leaks"
			}
			r.Violate(sig, fmt.Sprintf("output of [%s] after history [%s] differs from a fresh process (%s)", last.Label, strings.Join(labels, " ; "), firstLineDiff(fresh[last.Label], got)),
				map[string]any{"history": history, "call": last})
		}
	}
	// pairwise: every variant A, then every variant B (exhaustive over the table)
	for _, a := range vs {
		for _, b := range vs {
			check([]genCall{a}, b)
		}
	}
	r.Dist["pairwise"] = len(vs) * len(vs)
	// longer histories
	n := 40
	if thorough {
		n = 600
	}
	for i := 0; i < n; i++ {
		l := 2 + rng.Intn(5)
		var h []genCall
		for j := 0; j < l; j++ {
			h = append(h, vs[rng.Intn(len(vs))])
		}
		check(h, vs[rng.Intn(len(vs))])
		r.Dist[fmt.Sprintf("history_len=%d", l)]++
	}
	// one long trajectory case for the model (the in-process state is one continuous history)
	const chunk = 200
	for i := 0; i < len(hist); i += chunk {
		j := i + chunk
		if j > len(hist) {
			j = len(hist)
		}
		start := "Response"
		if i > 0 {
			start = observed[i-1]
		}
		cases.Add(fmt.Sprintf("(%s, [%s], %s)", gendoc.CoqStr(start), strings.Join(hist[i:j], "; "), gendoc.CoqStrList(observed[i:j])), map[string]any{"calls": i, "to": j})
	}
	cases.typ = "string * list suffix_call * list string"
	cases.WriteTo(r)
	r.Exhaustive = true
	r.Rule = fmt.Sprintf("%d variants (one per option that could leak through package-level state, two documents, three kinds of failing generation); every ordered pair (A then B) exhaustively, plus sampled histories of length 2-6; each observed call compared byte for byte with the same call in a fresh process; distinct = distinct (history, call) label sequence; non-trivial = non-empty history", len(vs))
}

func firstLineDiff(a, b string) string {
	la, lb := strings.Split(a, "\n"), strings.Split(b, "\n")
	for i := 0; i < len(la) && i < len(lb); i++ {
		if la[i] != lb[i] {
			return fmt.Sprintf("line %d: %q vs %q", i+1, trunc(la[i], 120), trunc(lb[i], 120))
		}
	}
	return fmt.Sprintf("lengths %d vs %d lines", len(la), len(lb))
}

func trunc(s string, n int) string {
	if len(s) > n {
		return s[:n] + "..."
	}
	return s
}
