package main

import (
	"fmt"

	"github.com/oapi-codegen/oapi-codegen/v2/pkg/codegen"
)

// Operation ids of every spelling that normalises to a non-empty identifier: leading separators, a digit right after
// the dropped separators (the name gets the prefix N only after normalisation), symbols, keywords, non-ASCII letters.
var c01OpIDs = []string{"_2fa_verify", " 2fa verify", "(1)things", "3GPPFoo", "verify-2fa", "-foo", "get.thing", "Get Thing", "type", "func", "string",
	"get_thing-by.id", "étage", "__init__", "a", "A1b2", "x-1-y", "@things", "list:all", "9"}

func runC01OpIDs(r *Report, ck *c01Checker) {
	targets := map[string]c01Target{}
	for _, t := range c01Targets() {
		targets[t.Name] = t
	}
	for _, id := range c01OpIDs {
		doc := map[string]any{"openapi": "3.0.3", "info": map[string]any{"title": "ids", "version": "1"},
			"paths": map[string]any{"/x/{p}": map[string]any{"get": map[string]any{"operationId": id,
				"parameters": []any{map[string]any{"name": "p", "in": "path", "required": true, "schema": map[string]any{"type": "string"}},
					map[string]any{"name": "q", "in": "query", "schema": map[string]any{"type": "integer"}}},
				"responses": map[string]any{"200": map[string]any{"description": "ok", "content": map[string]any{"application/json": map[string]any{"schema": map[string]any{"type": "object", "properties": map[string]any{"a": map[string]any{"type": "string"}}}}}}}}}}}
		for _, tn := range []string{"chi+strict", "client", "echo"} {
			tg, ok := targets[tn]
			if !ok {
				continue
			}
			cfg := codegen.Configuration{PackageName: "gen", Generate: tg.Gen}
			res := ck.gateJSON(doc, cfg)
			r.Count("opid/"+id+"@"+tn, true)
			r.Dist["family=operation_ids"]++
			if res.Stage == "ok" {
				continue
			}
			r.Violate("operation_id/"+msgClass(lastLine(res.Msg)), fmt.Sprintf("operationId %q @ %s: %s: %s", id, tn, res.Stage, trunc(lastLine(res.Msg), 300)),
				map[string]any{"document": doc, "target": tn, "at": res.Snippet, "diags": res.Diags})
		}
	}
}
