package main

import (
	"bytes"
	"encoding/json"
	"fmt"
	"go/ast"
	"go/importer"
	"go/parser"
	"go/token"
	"go/types"
	"io"
	"os"
	"os/exec"
	"path/filepath"
	"strings"
)

// exportMap runs `go list -export -deps` in dir and returns import path -> export data file.
func exportMap(dir string, tags string, patterns ...string) (map[string]string, error) {
	args := []string{"list", "-export", "-deps", "-json=ImportPath,Export,Error"}
	if tags != "" {
		args = append(args, "-tags", tags)
	}
	args = append(args, patterns...)
	cmd := exec.Command("go", args...)
	cmd.Dir = dir
	var out, errb bytes.Buffer
	cmd.Stdout, cmd.Stderr = &out, &errb
	if err := cmd.Run(); err != nil {
		return nil, fmt.Errorf("go list: %v: %s", err, errb.String())
	}
	res := map[string]string{}
	dec := json.NewDecoder(&out)
	for {
		var p struct {
			ImportPath, Export string
		}
		if err := dec.Decode(&p); err == io.EOF {
			break
		} else if err != nil {
			return nil, err
		}
		if p.Export != "" {
			res[p.ImportPath] = p.Export
		}
	}
	return res, nil
}

type exportImporter struct {
	fset    *token.FileSet
	exports map[string]string
	imp     types.Importer
}

func newExportImporter(fset *token.FileSet, exports map[string]string) types.Importer {
	lookup := func(path string) (io.ReadCloser, error) {
		f, ok := exports[path]
		if !ok {
			return nil, fmt.Errorf("no export data for %q", path)
		}
		return os.Open(f)
	}
	return importer.ForCompiler(fset, "gc", lookup)
}

// typeCheckFiles type-checks already parsed files as one package.
func typeCheckFiles(fset *token.FileSet, files []*ast.File, pkgPath string, exports map[string]string) (*types.Package, *types.Info, []error) {
	var errs []error
	conf := types.Config{Importer: newExportImporter(fset, exports), Error: func(err error) { errs = append(errs, err) }}
	info := &types.Info{Types: map[ast.Expr]types.TypeAndValue{}, Defs: map[*ast.Ident]types.Object{}, Uses: map[*ast.Ident]types.Object{}}
	pkg, _ := conf.Check(pkgPath, fset, files, info)
	return pkg, info, errs
}

// parseDir parses the non-test Go files of a directory honouring the given build tag set
// only as far as skipping files guarded by `//go:build verif` when withVerif is false.
func parseDir(fset *token.FileSet, dir string, withVerif bool) ([]*ast.File, error) {
	ents, err := os.ReadDir(dir)
	if err != nil {
		return nil, err
	}
	var files []*ast.File
	for _, e := range ents {
		n := e.Name()
		if e.IsDir() || !strings.HasSuffix(n, ".go") || strings.HasSuffix(n, "_test.go") {
			continue
		}
		src, err := os.ReadFile(filepath.Join(dir, n))
		if err != nil {
			return nil, err
		}
		if !withVerif && bytes.Contains(src, []byte("//go:build verif")) {
			continue
		}
		f, err := parser.ParseFile(fset, filepath.Join(dir, n), src, parser.ParseComments)
		if err != nil {
			return nil, err
		}
		files = append(files, f)
	}
	return files, nil
}
