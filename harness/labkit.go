package main

import (
	"bytes"
	"crypto/sha256"
	"encoding/hex"
	"encoding/json"
	"fmt"
	"go/ast"
	"go/printer"
	"go/token"
	"os"
	"os/exec"
	"path/filepath"
	"regexp"
	"sort"
	"strings"

	"github.com/oapi-codegen/oapi-codegen/v2/pkg/codegen"
)

// ---- generated-code laboratory: real codegen.Generate output, compiled against the pinned
// frameworks together with recording stubs, and driven by scenarios.

type LabPkg struct {
	Name string
	Spec []byte
	Cfg  codegen.Configuration
	FW   string // echo chi gin gorilla stdhttp fiber iris, "" = no server
}

type LabPkgStatus struct {
	GenerateError string `json:"generate_error,omitempty"`
	CompileError  string `json:"compile_error,omitempty"`
	OK            bool   `json:"ok"`
	Code          string `json:"-"`
}

type Lab struct {
	Dir    string
	Binary string
	Status map[string]*LabPkgStatus
}

var Frameworks = []string{"echo", "chi", "gin", "gorilla", "stdhttp", "fiber", "iris"}

func fwGenerate(fw string, g codegen.GenerateOptions) codegen.GenerateOptions {
	switch fw {
	case "echo":
		g.EchoServer = true
	case "chi":
		g.ChiServer = true
	case "gin":
		g.GinServer = true
	case "gorilla":
		g.GorillaServer = true
	case "stdhttp":
		g.StdHTTPServer = true
	case "fiber":
		g.FiberServer = true
	case "iris":
		g.IrisServer = true
	}
	return g
}

type fwInfo struct {
	imports   string
	ctxParams int
	respond   string
	scope     string // expression for the value stored under key %s
	mount     string // uses SI (server interface expression)
	mws       string
	strictFn  string // parameter list and argument list of the strict handler func
	strictArg string
}

const netHTTPMws = `func mws(t *labrt.Trace, o labrt.Options) []MiddlewareFunc {
	var out []MiddlewareFunc
	for i := 0; i < o.Middlewares; i++ {
		i := i
		out = append(out, func(next http.Handler) http.Handler {
			return http.HandlerFunc(func(w http.ResponseWriter, r *http.Request) {
				t.Add("mw", fmt.Sprint(i), map[string]any{"$scopes": labMwScopes(r)})
				if i == o.ShortCircuit {
					w.WriteHeader(299)
					return
				}
				if i+1 == o.MwWrites {
					w.Header().Set("X-Early", "1")
					w.WriteHeader(200)
					if f, ok := w.(http.Flusher); ok {
						f.Flush()
					}
				}
				next.ServeHTTP(w, r)
			})
		})
	}
	return out
}
`

// netHTTPMount: the four entry points of the net/http flavours. "from_mux" / "from_mux_base" register the routes on a
// router the caller made and serve THAT router (what a program does with its own mux); "plain" is Handler(si).
func netHTTPMount(optType, newRouter string) string {
	return `	switch o.Entry {
	case "plain":
		return Handler(SI), nil
	case "from_mux":
		router := ` + newRouter + `
		HandlerFromMux(SI, router)
		return router, nil
	case "from_mux_base":
		router := ` + newRouter + `
		HandlerFromMuxWithBaseURL(SI, router, o.BaseURL)
		return router, nil
	}
	opts := ` + optType + `{BaseURL: o.BaseURL, Middlewares: mws(t, o)}
	if o.ErrorHandler {
		opts.ErrorHandlerFunc = func(w http.ResponseWriter, r *http.Request, err error) {
			t.Add("errhandler", fmt.Sprintf("%T", err), map[string]any{"msg": err.Error()})
			http.Error(w, err.Error(), http.StatusBadRequest)
		}
	}
	return HandlerWithOptions(SI, opts), nil
`
}

var fwTable = map[string]fwInfo{
	"echo": {
		imports: `"github.com/labstack/echo/v4"`, ctxParams: 1, respond: "return ctx.NoContent(204)",
		scope: "ctx.Get(%s)",
		mount: `	e := echo.New()
	if o.ErrorHandler {
		e.HTTPErrorHandler = func(err error, c echo.Context) {
			t.Add("errhandler", fmt.Sprintf("%T", err), map[string]any{"msg": err.Error()})
			e.DefaultHTTPErrorHandler(err, c)
		}
	}
	if o.Entry == "plain" {
		RegisterHandlers(e, SI)
	} else {
		RegisterHandlersWithBaseURL(e, SI, o.BaseURL)
	}
	return e, nil
`,
		mws:      "",
		strictFn: "ctx echo.Context, request interface{}", strictArg: "ctx, request",
	},
	"chi": {imports: `"github.com/go-chi/chi/v5"`, ctxParams: 2, respond: "w.WriteHeader(204)", scope: "r.Context().Value(%s)",
		mount: netHTTPMount("ChiServerOptions", "chi.NewRouter()"), mws: netHTTPMws,
		strictFn: "ctx context.Context, w http.ResponseWriter, r *http.Request, request interface{}", strictArg: "ctx, w, r, request"},
	"gorilla": {imports: `"github.com/gorilla/mux"`, ctxParams: 2, respond: "w.WriteHeader(204)", scope: "r.Context().Value(%s)",
		mount: netHTTPMount("GorillaServerOptions", "mux.NewRouter()"), mws: netHTTPMws,
		strictFn: "ctx context.Context, w http.ResponseWriter, r *http.Request, request interface{}", strictArg: "ctx, w, r, request"},
	"stdhttp": {imports: ``, ctxParams: 2, respond: "w.WriteHeader(204)", scope: "r.Context().Value(%s)",
		mount: netHTTPMount("StdHTTPServerOptions", "http.NewServeMux()"), mws: netHTTPMws,
		strictFn: "ctx context.Context, w http.ResponseWriter, r *http.Request, request interface{}", strictArg: "ctx, w, r, request"},
	"gin": {imports: `"github.com/gin-gonic/gin"`, ctxParams: 1, respond: "c.Status(204)",
		scope: "func() any { v, _ := c.Get(%s); return v }()",
		mount: `	gin.SetMode(gin.ReleaseMode)
	r := gin.New()
	opts := GinServerOptions{BaseURL: o.BaseURL, Middlewares: mws(t, o)}
	if o.ErrorHandler {
		opts.ErrorHandler = func(c *gin.Context, err error, code int) {
			t.Add("errhandler", fmt.Sprintf("%T", err), map[string]any{"msg": err.Error(), "code": code})
			c.JSON(code, gin.H{"msg": err.Error()})
		}
	}
	if o.Entry == "plain" {
		RegisterHandlers(r, SI)
	} else {
		RegisterHandlersWithOptions(r, SI, opts)
	}
	return r, nil
`,
		mws: `func mws(t *labrt.Trace, o labrt.Options) []MiddlewareFunc {
	var out []MiddlewareFunc
	for i := 0; i < o.Middlewares; i++ {
		i := i
		out = append(out, func(c *gin.Context) {
			t.Add("mw", fmt.Sprint(i), map[string]any{"$scopes": labMwScopes(c)})
			if i == o.ShortCircuit {
				c.AbortWithStatus(299)
			}
			if i+1 == o.MwWrites {
				// sends the header (a streaming / server-sent-events middleware) and does not abort: the chain goes on
				c.Writer.Header().Set("X-Early", "1")
				c.Writer.WriteHeaderNow()
				c.Writer.Flush()
			}
		})
	}
	return out
}
`,
		strictFn: "ctx *gin.Context, request interface{}", strictArg: "ctx, request"},
	"fiber": {imports: `"github.com/gofiber/fiber/v2"`, ctxParams: 1, respond: "return c.SendStatus(204)",
		scope: "c.Context().UserValue(%s)",
		mount: `	app := fiber.New()
	if o.Entry == "plain" {
		RegisterHandlers(app, SI)
	} else {
		RegisterHandlersWithOptions(app, SI, FiberServerOptions{BaseURL: o.BaseURL, Middlewares: mws(t, o)})
	}
	return labrt.RespFunc(func(r *http.Request) (*http.Response, error) { return app.Test(r, -1) }), nil
`,
		mws: `func mws(t *labrt.Trace, o labrt.Options) []MiddlewareFunc {
	var out []MiddlewareFunc
	for i := 0; i < o.Middlewares; i++ {
		i := i
		out = append(out, func(c *fiber.Ctx) error {
			t.Add("mw", fmt.Sprint(i), nil)
			if i == o.ShortCircuit {
				return c.SendStatus(299)
			}
			return c.Next()
		})
	}
	return out
}
`,
		strictFn: "ctx *fiber.Ctx, request interface{}", strictArg: "ctx, request"},
	"iris": {imports: `"github.com/kataras/iris/v12"`, ctxParams: 1, respond: "ctx.StatusCode(204)",
		scope: "ctx.Values().Get(%s)",
		mount: `	app := iris.New()
	app.Logger().SetLevel("disable")
	if o.Entry == "plain" {
		RegisterHandlers(app, SI)
	} else {
		RegisterHandlersWithOptions(app, SI, IrisServerOptions{BaseURL: o.BaseURL, Middlewares: mws(t, o)})
	}
	if err := app.Build(); err != nil {
		return nil, err
	}
	return app, nil
`,
		mws: `func mws(t *labrt.Trace, o labrt.Options) []MiddlewareFunc {
	var out []MiddlewareFunc
	for i := 0; i < o.Middlewares; i++ {
		i := i
		out = append(out, func(ctx iris.Context) {
			t.Add("mw", fmt.Sprint(i), nil)
			if i == o.ShortCircuit {
				ctx.StatusCode(299)
				return
			}
			ctx.Next()
		})
	}
	return out
}
`,
		strictFn: "ctx iris.Context, request interface{}", strictArg: "ctx, request"},
}

func nodeSrc(fset *token.FileSet, n ast.Node) string {
	var b bytes.Buffer
	_ = printer.Fprint(&b, fset, n)
	return b.String()
}

func findInterface(p *parsed, name string) *ast.InterfaceType {
	for _, d := range p.file.Decls {
		if gd, ok := d.(*ast.GenDecl); ok {
			for _, s := range gd.Specs {
				if ts, ok := s.(*ast.TypeSpec); ok && ts.Name.Name == name {
					if it, ok := ts.Type.(*ast.InterfaceType); ok {
						return it
					}
				}
			}
		}
	}
	return nil
}

// genStub writes the recording stubs, the mount function and the registries for one package.
func genStub(pkg LabPkg, code string) (string, error) {
	p, err := parseGo(code)
	if err != nil {
		return "", err
	}
	var sb strings.Builder
	fw := fwTable[pkg.FW]
	strict := pkg.Cfg.Generate.Strict
	fmt.Fprintf(&sb, "package %s\n\nimport (\n\t\"context\"\n\t\"errors\"\n\t\"fmt\"\n\t\"net/http\"\n\t\"reflect\"\n\n\t\"lab/labrt\"\n", pkg.Name)
	if pkg.FW != "" && fw.imports != "" {
		fmt.Fprintf(&sb, "\t%s\n", fw.imports)
	}
	sb.WriteString(")\n\nvar _ = context.Background\nvar _ = errors.New\nvar _ = fmt.Sprint\nvar _ http.Handler\nvar _ reflect.Type\nvar _ labrt.Options\n\n")

	// scope constants
	var scopeConsts []string
	for _, d := range p.file.Decls {
		if gd, ok := d.(*ast.GenDecl); ok && gd.Tok == token.CONST {
			for _, s := range gd.Specs {
				for _, n := range s.(*ast.ValueSpec).Names {
					if strings.HasSuffix(n.Name, "Scopes") {
						scopeConsts = append(scopeConsts, n.Name)
					}
				}
			}
		}
	}
	si := findInterface(p, "ServerInterface")
	if pkg.FW == "chi" || pkg.FW == "gorilla" || pkg.FW == "stdhttp" || pkg.FW == "gin" {
		// what a per-operation middleware finds in the request context under the generated scope keys
		arg := "r *http.Request"
		if pkg.FW == "gin" {
			arg = "c *gin.Context"
		}
		fmt.Fprintf(&sb, "func labMwScopes(%s) map[string]any {\n\tscopes := map[string]any{}\n", arg)
		for _, c := range scopeConsts {
			fmt.Fprintf(&sb, "\tif v := %s; v != nil {\n\t\tscopes[%q] = v\n\t}\n", fmt.Sprintf(fw.scope, c), c)
		}
		sb.WriteString("\treturn scopes\n}\n\n")
	}
	if pkg.FW != "" && si != nil {
		// ---- non-strict stub (also the innermost layer under the strict handler's wrapper)
		sb.WriteString("type Stub struct{ T *labrt.Trace }\n\n")
		for _, m := range si.Methods.List {
			ft, ok := m.Type.(*ast.FuncType)
			if !ok || len(m.Names) == 0 {
				continue
			}
			name := m.Names[0].Name
			var params, rec []string
			idx := 0
			var ctxName string
			for _, f := range ft.Params.List {
				typ := nodeSrc(p.fset, f.Type)
				names := f.Names
				if len(names) == 0 {
					names = []*ast.Ident{{Name: fmt.Sprintf("a%d", idx)}}
				}
				for _, n := range names {
					pn := n.Name
					if idx < fw.ctxParams {
						// canonical names used by the respond/scope snippets
						switch pkg.FW {
						case "echo", "iris":
							pn = "ctx"
						case "gin", "fiber":
							pn = "c"
						default:
							if idx == 0 {
								pn = "w"
							} else {
								pn = "r"
							}
						}
						ctxName = pn
					} else {
						rec = append(rec, fmt.Sprintf("%q: %s", n.Name, pn))
					}
					params = append(params, pn+" "+typ)
					idx++
				}
			}
			_ = ctxName
			results := ""
			if ft.Results != nil && len(ft.Results.List) > 0 {
				results = " " + nodeSrc(p.fset, ft.Results.List[0].Type)
			}
			fmt.Fprintf(&sb, "func (s *Stub) %s(%s)%s {\n", name, strings.Join(params, ", "), results)
			fmt.Fprintf(&sb, "\targs := map[string]any{%s}\n", strings.Join(rec, ", "))
			if len(scopeConsts) > 0 {
				sb.WriteString("\tscopes := map[string]any{}\n")
				for _, c := range scopeConsts {
					fmt.Fprintf(&sb, "\tif v := %s; v != nil {\n\t\tscopes[%q] = v\n\t}\n", fmt.Sprintf(fw.scope, c), c)
				}
				sb.WriteString("\targs[\"$scopes\"] = scopes\n")
			}
			fmt.Fprintf(&sb, "\ts.T.Add(\"handler\", %q, args)\n\t%s\n}\n\n", name, fw.respond)
		}
		siExpr := "&Stub{T: t}"
		ssi := findInterface(p, "StrictServerInterface")
		if strict && ssi != nil {
			sb.WriteString("type StrictStub struct {\n\tT *labrt.Trace\n\tO labrt.Options\n}\n\n")
			for _, m := range ssi.Methods.List {
				ft, ok := m.Type.(*ast.FuncType)
				if !ok || len(m.Names) == 0 {
					continue
				}
				name := m.Names[0].Name
				var params []string
				for _, f := range ft.Params.List {
					for _, n := range f.Names {
						params = append(params, n.Name+" "+nodeSrc(p.fset, f.Type))
					}
				}
				respType := nodeSrc(p.fset, ft.Results.List[0].Type)
				fmt.Fprintf(&sb, "func (s *StrictStub) %s(%s) (%s, error) {\n", name, strings.Join(params, ", "), respType)
				fmt.Fprintf(&sb, "\ts.T.Add(\"handler\", %q, map[string]any{\"request\": labrt.Describe(request)})\n", name)
				sb.WriteString("\tif s.O.StrictHandlerErr {\n\t\treturn nil, errors.New(\"handler error\")\n\t}\n")
				sb.WriteString("\tv, err := labrt.MakeResponse(Types(), s.O)\n\tif err != nil || v == nil {\n\t\treturn nil, err\n\t}\n")
				fmt.Fprintf(&sb, "\tr, ok := v.(%s)\n\tif !ok {\n\t\treturn nil, fmt.Errorf(\"lab: %%T is not a response of %s\", v)\n\t}\n\tif s.O.StrictErrWithResp {\n\t\treturn r, errors.New(\"handler error\")\n\t}\n\treturn r, nil\n}\n\n", respType, name)
			}
			fmt.Fprintf(&sb, `func strictMws(t *labrt.Trace, o labrt.Options) []StrictMiddlewareFunc {
	var out []StrictMiddlewareFunc
	for i := 0; i < o.StrictMw; i++ {
		i := i
		out = append(out, func(f StrictHandlerFunc, operationID string) StrictHandlerFunc {
			return func(%s) (interface{}, error) {
				t.Add("strictmw", fmt.Sprint(i), map[string]any{"opid": operationID})
				if i == o.StrictShort {
					return nil, nil
				}
				if i == 0 && o.StrictForeign {
					if _, err := f(%s); err != nil {
						return nil, err
					}
					return labrt.Foreign{Note: "not a response object of this operation"}, nil
				}
				return f(%s)
			}
		})
	}
	return out
}

`, fw.strictFn, fw.strictArg, fw.strictArg)
			siExpr = "NewStrictHandler(&StrictStub{T: t, O: o}, strictMws(t, o))"
			if hasFuncDecl(p, "NewStrictHandlerWithOptions") && p.typeNames()["StrictHTTPServerOptions"] {
				// the second constructor of the net/http flavours, with handlers that answer as the default ones do
				sb.WriteString(`func strictSI(t *labrt.Trace, o labrt.Options) ServerInterface {
	if o.StrictWithOptions {
		return NewStrictHandlerWithOptions(&StrictStub{T: t, O: o}, strictMws(t, o), StrictHTTPServerOptions{
			RequestErrorHandlerFunc: func(w http.ResponseWriter, r *http.Request, err error) {
				http.Error(w, err.Error(), http.StatusBadRequest)
			},
			ResponseErrorHandlerFunc: func(w http.ResponseWriter, r *http.Request, err error) {
				http.Error(w, err.Error(), http.StatusInternalServerError)
			},
		})
	}
	return NewStrictHandler(&StrictStub{T: t, O: o}, strictMws(t, o))
}

`)
				siExpr = "strictSI(t, o)"
			}
		}
		sb.WriteString(fw.mws)
		sb.WriteString("\nfunc Mount(t *labrt.Trace, o labrt.Options) (http.Handler, error) {\n")
		sb.WriteString(strings.ReplaceAll(fw.mount, "SI", siExpr))
		sb.WriteString("}\n\n")
	}
	// ---- registries
	var funcs, types []string
	for _, d := range p.file.Decls {
		switch x := d.(type) {
		case *ast.FuncDecl:
			if x.Recv == nil && ((strings.HasPrefix(x.Name.Name, "New") && strings.Contains(x.Name.Name, "Request")) || (strings.HasPrefix(x.Name.Name, "Parse") && strings.HasSuffix(x.Name.Name, "Response")) || x.Name.Name == "GetSwagger") {
				funcs = append(funcs, x.Name.Name)
			}
		case *ast.GenDecl:
			if x.Tok == token.TYPE {
				for _, s := range x.Specs {
					ts := s.(*ast.TypeSpec)
					if ts.TypeParams != nil || !ast.IsExported(ts.Name.Name) {
						continue
					}
					types = append(types, ts.Name.Name)
				}
			}
		}
	}
	sort.Strings(funcs)
	sort.Strings(types)
	if hasFuncDecl(p, "NewClientWithResponses") && hasFuncDecl(p, "WithHTTPClient") && hasFuncDecl(p, "WithRequestEditorFn") {
		// the generated client as a user assembles it: its options, a doer of the driver's, request editors
		sb.WriteString(`func LabNewClient(server string, doer labrt.Doer, editors []func(context.Context, *http.Request) error) (any, error) {
	opts := []ClientOption{WithHTTPClient(doer)}
	for _, e := range editors {
		opts = append(opts, WithRequestEditorFn(RequestEditorFn(e)))
	}
	return NewClientWithResponses(server, opts...)
}

`)
		funcs = append(funcs, "LabNewClient")
	}
	sb.WriteString("func Funcs() map[string]any {\n\treturn map[string]any{\n")
	for _, f := range funcs {
		fmt.Fprintf(&sb, "\t\t%q: %s,\n", f, f)
	}
	sb.WriteString("\t}\n}\n\nfunc Types() map[string]reflect.Type {\n\treturn map[string]reflect.Type{\n")
	for _, t := range types {
		fmt.Fprintf(&sb, "\t\t%q: reflect.TypeOf((*%s)(nil)).Elem(),\n", t, t)
	}
	sb.WriteString("\t}\n}\n")
	// imports that the copied signatures need (openapi_types, time, ...)
	out := sb.String()
	var extra []string
	for _, im := range p.file.Imports {
		path := strings.Trim(im.Path.Value, `"`)
		name := path[strings.LastIndex(path, "/")+1:]
		if im.Name != nil {
			name = im.Name.Name
		}
		switch name {
		case "context", "errors", "fmt", "http", "reflect", "echo", "gin", "fiber", "iris", "chi", "mux":
			continue
		}
		if strings.Contains(out, " "+name+".") || strings.Contains(out, "*"+name+".") || strings.Contains(out, "]"+name+".") || strings.Contains(out, "("+name+".") {
			if im.Name != nil {
				extra = append(extra, fmt.Sprintf("\t%s %s\n", im.Name.Name, im.Path.Value))
			} else {
				extra = append(extra, fmt.Sprintf("\t%s\n", im.Path.Value))
			}
		}
	}
	if len(extra) > 0 {
		out = strings.Replace(out, "\t\"lab/labrt\"\n", "\t\"lab/labrt\"\n"+strings.Join(extra, ""), 1)
	}
	return out, nil
}

func repoFingerprint() string {
	h := sha256.New()
	for _, root := range []string{"/repo/pkg", "/repo/go.mod"} {
		_ = filepath.Walk(root, func(path string, info os.FileInfo, err error) error {
			if err != nil || info.IsDir() || strings.HasSuffix(path, "_test.go") {
				return nil
			}
			b, _ := os.ReadFile(path)
			h.Write([]byte(path))
			h.Write(b)
			return nil
		})
	}
	return hex.EncodeToString(h.Sum(nil))[:16]
}

var compileErrRe = regexp.MustCompile(`(?m)^# lab/pkgs/(\S+)`)

// BuildLab generates, stubs and compiles the packages; packages that fail to generate or to
// compile are reported in Status and left out of the driver.
func BuildLab(labRoot string, tag string, pkgs []LabPkg) (*Lab, error) {
	h := sha256.New()
	h.Write([]byte(repoFingerprint()))
	for _, p := range pkgs {
		b, _ := json.Marshal(p)
		h.Write(b)
	}
	if rt, err := os.ReadFile("/verif/lab/labrt/labrt.go"); err == nil {
		h.Write(rt)
	}
	if rt, err := os.ReadFile("/verif/lab/labrt/strict.go"); err == nil {
		h.Write(rt)
	}
	// the generator (templates included) is linked into this very binary
	if exe, err := os.Executable(); err == nil {
		if self, err := os.ReadFile(exe); err == nil {
			h.Write(self)
		}
	}
	key := hex.EncodeToString(h.Sum(nil))[:16]
	dir := filepath.Join(labRoot, tag+"-"+key)
	lab := &Lab{Dir: dir, Binary: filepath.Join(dir, "lab.bin"), Status: map[string]*LabPkgStatus{}}
	statusFile := filepath.Join(dir, "status.json")
	if _, err := os.Stat(lab.Binary); err == nil {
		if b, err := os.ReadFile(statusFile); err == nil && json.Unmarshal(b, &lab.Status) == nil {
			// generated code is needed by some callers
			for name, st := range lab.Status {
				if c, err := os.ReadFile(filepath.Join(dir, "pkgs", name, "gen.go")); err == nil {
					st.Code = string(c)
				}
			}
			return lab, nil
		}
	}
	// evict older builds of the same tag
	if ents, err := os.ReadDir(labRoot); err == nil {
		for _, e := range ents {
			if strings.HasPrefix(e.Name(), tag+"-") {
				_ = os.RemoveAll(filepath.Join(labRoot, e.Name()))
			}
		}
	}
	must(os.MkdirAll(filepath.Join(dir, "labrt"), 0o755))
	gomod, err := os.ReadFile("/verif/harness/go.mod")
	if err != nil {
		return nil, err
	}
	gm := strings.Replace(string(gomod), "module verif/harness", "module lab", 1)
	must(os.WriteFile(filepath.Join(dir, "go.mod"), []byte(gm), 0o644))
	gosum, _ := os.ReadFile("/verif/harness/go.sum")
	must(os.WriteFile(filepath.Join(dir, "go.sum"), gosum, 0o644))
	for _, f := range []string{"labrt.go", "strict.go"} {
		b, err := os.ReadFile(filepath.Join("/verif/lab/labrt", f))
		if err != nil {
			return nil, err
		}
		must(os.WriteFile(filepath.Join(dir, "labrt", f), b, 0o644))
	}
	for _, p := range pkgs {
		st := &LabPkgStatus{}
		lab.Status[p.Name] = st
		cfg := p.Cfg
		cfg.PackageName = p.Name
		code, err := generate(p.Spec, cfg)
		if err != nil {
			st.GenerateError = err.Error()
			continue
		}
		st.Code = code
		pd := filepath.Join(dir, "pkgs", p.Name)
		must(os.MkdirAll(pd, 0o755))
		must(os.WriteFile(filepath.Join(pd, "gen.go"), []byte(code), 0o644))
		stub, err := genStub(p, code)
		if err != nil {
			st.CompileError = "output does not parse: " + err.Error()
			continue
		}
		must(os.WriteFile(filepath.Join(pd, "stub.go"), []byte(stub), 0o644))
	}
	// compile the packages; collect the failing ones
	run := func(args ...string) (string, error) {
		cmd := exec.Command("go", args...)
		cmd.Dir = dir
		var out bytes.Buffer
		cmd.Stdout, cmd.Stderr = &out, &out
		err := cmd.Run()
		return out.String(), err
	}
	out, _ := run("build", "-gcflags=-e", "./pkgs/...")
	if out != "" {
		locs := compileErrRe.FindAllStringSubmatchIndex(out, -1)
		for i, loc := range locs {
			name := out[loc[2]:loc[3]]
			end := len(out)
			if i+1 < len(locs) {
				end = locs[i+1][0]
			}
			if st, ok := lab.Status[name]; ok {
				st.CompileError = strings.TrimSpace(out[loc[1]:end])
			}
		}
		if len(locs) == 0 {
			return nil, fmt.Errorf("lab build failed: %s", out)
		}
	}
	var good []string
	for _, p := range pkgs {
		st := lab.Status[p.Name]
		if st.GenerateError == "" && st.CompileError == "" {
			st.OK = true
			good = append(good, p.Name)
		}
	}
	var sb strings.Builder
	sb.WriteString("package main\n\nimport (\n\t\"lab/labrt\"\n")
	for _, n := range good {
		fmt.Fprintf(&sb, "\t%s \"lab/pkgs/%s\"\n", n, n)
	}
	sb.WriteString(")\n\nfunc main() {\n\tlabrt.Main(map[string]labrt.Package{\n")
	fwOf := map[string]string{}
	for _, p := range pkgs {
		fwOf[p.Name] = p.FW
	}
	for _, n := range good {
		mount := "nil"
		if fwOf[n] != "" && strings.Contains(lab.Status[n].Code, "type ServerInterface interface") {
			mount = n + ".Mount"
		}
		fmt.Fprintf(&sb, "\t\t%q: {Framework: %q, Mount: %s, Funcs: %s.Funcs(), Types: %s.Types()},\n", n, fwOf[n], mount, n, n)
	}
	sb.WriteString("\t})\n}\n")
	must(os.MkdirAll(filepath.Join(dir, "driver"), 0o755))
	must(os.WriteFile(filepath.Join(dir, "driver", "main.go"), []byte(sb.String()), 0o644))
	if out, err := run("build", "-o", "lab.bin", "./driver"); err != nil {
		return nil, fmt.Errorf("driver build failed: %s", out)
	}
	b, _ := json.MarshalIndent(lab.Status, "", " ")
	must(os.WriteFile(statusFile, b, 0o644))
	return lab, nil
}

// LabScenario mirrors labrt.Scenario (kept as raw JSON maps on this side).
type LabResult struct {
	ID         string                     `json:"id"`
	Err        string                     `json:"err"`
	Wire       *LabWire                   `json:"wire"`
	Status     int                        `json:"status"`
	RespHeader map[string][]string        `json:"resp_header"`
	RespBody   string                     `json:"resp_body"`
	Trace      []LabEvent                 `json:"trace"`
	Parsed     map[string]json.RawMessage `json:"parsed"`
	Out        []json.RawMessage          `json:"out"`
}

type LabWire struct {
	Method   string              `json:"method"`
	Path     string              `json:"path"`
	RawQuery string              `json:"raw_query"`
	Header   map[string][]string `json:"header"`
	Body     string              `json:"body"`
}

type LabEvent struct {
	Kind string                     `json:"kind"`
	Name string                     `json:"name"`
	Data map[string]json.RawMessage `json:"data"`
}

// Run executes the scenarios in one process of the laboratory binary.
func (l *Lab) Run(scenarios []map[string]any) (map[string]*LabResult, error) {
	var in bytes.Buffer
	enc := json.NewEncoder(&in)
	for _, s := range scenarios {
		if err := enc.Encode(s); err != nil {
			return nil, err
		}
	}
	cmd := exec.Command(l.Binary)
	cmd.Stdin = &in
	var out, errb bytes.Buffer
	cmd.Stdout, cmd.Stderr = &out, &errb
	if err := cmd.Run(); err != nil {
		return nil, fmt.Errorf("lab run: %v: %s", err, trunc(errb.String(), 2000))
	}
	res := map[string]*LabResult{}
	dec := json.NewDecoder(&out)
	for dec.More() {
		var r LabResult
		if err := dec.Decode(&r); err != nil {
			return nil, err
		}
		rr := r
		res[r.ID] = &rr
	}
	return res, nil
}

// hasFuncDecl: the file declares a package-level function of that name.
func hasFuncDecl(p *parsed, name string) bool {
	for _, d := range p.file.Decls {
		if fd, ok := d.(*ast.FuncDecl); ok && fd.Recv == nil && fd.Name.Name == name {
			return true
		}
	}
	return false
}
