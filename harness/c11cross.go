package main

import (
	"encoding/json"
	"fmt"
	"go/ast"
	"go/token"
	"math/rand"
	"sort"
	"strings"

	"github.com/oapi-codegen/oapi-codegen/v2/pkg/codegen"

	"verif/harness/gendoc"
)

// Cross-enum conflicts: several top-level enums and a few other types drawn from a small alphabet, so that
// values meet across enums, meet prefixed names of other enums, type names and their own type name.
func runC11Cross(r *Report, rng *rand.Rand, thorough bool) {
	typePool := []string{"Color", "Light", "Paint", "Dpaint", "A", "AB", "Red", "ColorRed", "Zebra"}
	valuePool := []string{"red", "green", "color_red", "light_red", "paint_red", "b_red", "x", "color", "light", "a_red", "zebra", "ab_x", "a_b_x"}
	cases := NewCases("cases_C11_cross", "From V Require Import Model.EnumConflict Corr.Eval.", "bool * list string * list (string * list string) * list bool", "mismatches_enum_conflict")
	n := 250
	if thorough {
		n = 2500
	}
	fixed := [][2]any{ // (schemas, always) - the shapes named in the theorems come first
		{map[string][]string{"Color": {"red", "green"}, "Light": {"red", "amber"}, "Paint": {"color_red", "matte"}}, false},
		{map[string][]string{"Color": {"red"}, "Dpaint": {"color_red"}, "Light": {"red"}}, false},
		{map[string][]string{"A": {"b_red", "x"}, "AB": {"red", "x"}}, false},
	}
	for i := 0; i < n; i++ {
		enums := map[string][]string{}
		var others []string
		always := false
		if i < len(fixed) {
			enums = fixed[i][0].(map[string][]string)
		} else {
			perm := rng.Perm(len(typePool))
			ne := 2 + rng.Intn(3)
			for _, k := range perm[:ne] {
				vp := rng.Perm(len(valuePool))
				var vs []string
				for _, x := range vp[:1+rng.Intn(3)] {
					vs = append(vs, valuePool[x])
				}
				enums[typePool[k]] = vs
			}
			for _, k := range perm[ne : ne+rng.Intn(3)] {
				others = append(others, typePool[k])
			}
			always = rng.Intn(8) == 0
		}
		comps := map[string]any{}
		for name, vs := range enums {
			var xs []any
			for _, v := range vs {
				xs = append(xs, v)
			}
			comps[name] = map[string]any{"type": "string", "enum": xs}
		}
		for _, o := range others {
			comps[o] = map[string]any{"type": "object", "properties": map[string]any{"id": map[string]any{"type": "string"}}}
		}
		spec, _ := json.Marshal(map[string]any{"openapi": "3.0.3", "info": map[string]any{"title": "e", "version": "1"}, "paths": map[string]any{}, "components": map[string]any{"schemas": comps}})
		cfg := codegen.Configuration{PackageName: "gen", Generate: codegen.GenerateOptions{Models: true}}
		cfg.OutputOptions.SkipPrune = true
		cfg.Compatibility.AlwaysPrefixEnumValues = always
		replay := map[string]any{"spec": json.RawMessage(spec), "always_prefix": always}
		r.Count("cross:"+string(spec)+fmt.Sprint(always), true)
		r.Dist["family=cross-enum"]++
		code, err := generate(spec, cfg)
		if err != nil {
			r.Violate("generate_fails_on_enum/cross", trunc(err.Error(), 300), replay)
			continue
		}
		p, err := parseGo(code)
		if err != nil {
			r.Violate("output_unparsable", err.Error(), replay)
			continue
		}
		byType := map[string][]string{}
		count := map[string]int{}
		for _, dd := range p.file.Decls {
			gd, ok := dd.(*ast.GenDecl)
			if !ok || gd.Tok != token.CONST {
				continue
			}
			for _, sp := range gd.Specs {
				vs := sp.(*ast.ValueSpec)
				id, _ := vs.Type.(*ast.Ident)
				for _, nm := range vs.Names {
					count[nm.Name]++
					if id != nil {
						byType[id.Name] = append(byType[id.Name], nm.Name)
					}
				}
			}
		}
		names := make([]string, 0, len(enums))
		for k := range enums {
			names = append(names, k)
		}
		sort.Strings(names)
		var enumTerms, obs []string
		ok := true
		for _, tn := range names {
			plainMap := codegen.SanitizeEnumNames(nil, enums[tn])
			var plain, pref []string
			for k := range plainMap {
				if codegen.UppercaseFirstCharacter(k) != k {
					ok = false
				}
				plain = append(plain, k)
				pref = append(pref, tn+k)
			}
			sort.Strings(plain)
			sort.Strings(pref)
			got := append([]string{}, byType[tn]...)
			sort.Strings(got)
			switch {
			case eqStrings(got, plain):
				obs = append(obs, "false")
			case eqStrings(got, pref):
				obs = append(obs, "true")
			default:
				r.Violate("enum_constants_neither_plain_nor_prefixed", fmt.Sprintf("%s: constants %v, plain %v, prefixed %v", tn, got, plain, pref), replay)
				ok = false
			}
			enumTerms = append(enumTerms, fmt.Sprintf("(%s, %s)", gendoc.CoqStr(tn), gendoc.CoqStrList(plain)))
		}
		// oracle: all constant names of the package are distinct
		var dups []string
		for nm, c := range count {
			if c > 1 {
				dups = append(dups, nm)
			}
		}
		sort.Strings(dups)
		if ok {
			sort.Strings(others)
			idx := cases.Add(fmt.Sprintf("(%v, %s, [%s], [%s])", always, gendoc.CoqStrList(others), strings.Join(enumTerms, "; "), strings.Join(obs, "; ")), replay)
			_ = idx
		}
		if len(dups) > 0 {
			// The unchanged pass is a single sweep (theorems C11_single_sweep_refuted / C11_prefix_ambiguity_refuted); the model
			// is compared case by case above, so a collision the model does not predict shows up as a mismatch there.
			r.Violate("cross_enum_constant_names_collide_after_single_sweep", fmt.Sprintf("constants declared twice: %v (enums %v, other types %v)", dups, enums, others), replay)
		}
	}
	// enums over DIFFERENT base types whose values are spelled alike (1 and "1", true and "true", int32 and int64): the
	// constant names clash although the values cannot; all names must still be distinct and every value keep its constant
	mixed := []map[string]any{
		{"Priority": map[string]any{"type": "integer", "enum": []any{1, 2, 3}}, "ApiVersion": map[string]any{"type": "string", "enum": []any{"1", "2"}}},
		{"Enabled": map[string]any{"type": "boolean", "enum": []any{true, false}}, "Answer": map[string]any{"type": "string", "enum": []any{"true", "false", "unknown"}}},
		{"Small": map[string]any{"type": "integer", "format": "int32", "enum": []any{1, 2}}, "Big": map[string]any{"type": "integer", "format": "int64", "enum": []any{1, 2}}},
		{"Ratio": map[string]any{"type": "number", "enum": []any{1, 2.5}}, "Count": map[string]any{"type": "integer", "enum": []any{1, 7}}},
	}
	for mi, comps := range mixed {
		spec, _ := json.Marshal(map[string]any{"openapi": "3.0.3", "info": map[string]any{"title": "e", "version": "1"}, "paths": map[string]any{}, "components": map[string]any{"schemas": comps}})
		cfg := codegen.Configuration{PackageName: "gen", Generate: codegen.GenerateOptions{Models: true}}
		cfg.OutputOptions.SkipPrune = true
		replay := map[string]any{"spec": json.RawMessage(spec)}
		r.Count(fmt.Sprintf("mixed-base-types/%d", mi), true)
		r.Dist["family=cross-enum-mixed-base-types"]++
		code, err := generate(spec, cfg)
		if err != nil {
			r.Violate("generate_fails_on_enum/mixed-base-types", trunc(err.Error(), 300), replay)
			continue
		}
		p, err := parseGo(code)
		if err != nil {
			r.Violate("output_unparsable", err.Error(), replay)
			continue
		}
		count := map[string]int{}
		perType := map[string]int{}
		for _, dd := range p.file.Decls {
			gd, ok := dd.(*ast.GenDecl)
			if !ok || gd.Tok != token.CONST {
				continue
			}
			for _, sp := range gd.Specs {
				vs := sp.(*ast.ValueSpec)
				id, _ := vs.Type.(*ast.Ident)
				for _, nm := range vs.Names {
					count[nm.Name]++
					if id != nil {
						perType[id.Name]++
					}
				}
			}
		}
		var problems []string
		for nm, c := range count {
			if c > 1 {
				problems = append(problems, fmt.Sprintf("constant %s declared %d times", nm, c))
			}
		}
		for tn, sc := range comps {
			if want := len(sc.(map[string]any)["enum"].([]any)); perType[tn] != want {
				problems = append(problems, fmt.Sprintf("enum %s has %d constants for %d values", tn, perType[tn], want))
			}
		}
		if len(problems) > 0 {
			sort.Strings(problems)
			r.Violate("enums_of_different_base_types_clash", strings.Join(problems, "; "), replay)
		}
	}
	// enums declared in DIFFERENT positions of the document: component schemas, inline in an operation's parameter or
	// request body, in a reusable parameter - clashes across those positions are resolved like clashes inside one
	resp := map[string]any{"204": map[string]any{"description": "d"}}
	positions := []struct {
		name  string
		doc   map[string]any
		enums map[string]int // enum type -> number of values
		old   bool           // generated with compatibility.old-enum-conflicts
	}{
		{"old-enum-conflicts: the path-prefixed constant names of two enums clash (Foo+bar_x, FooBar+x)",
			map[string]any{"paths": map[string]any{}, "components": map[string]any{"schemas": map[string]any{
				"Foo": map[string]any{"type": "string", "enum": []any{"bar_x", "baz"}}, "FooBar": map[string]any{"type": "string", "enum": []any{"x", "y"}}}}},
			map[string]int{"Foo": 2, "FooBar": 2}, true},
		{"old-enum-conflicts: a path-prefixed constant is named like a type (Pet+store, PetStore)",
			map[string]any{"paths": map[string]any{}, "components": map[string]any{"schemas": map[string]any{
				"Pet": map[string]any{"type": "string", "enum": []any{"store", "shop"}}, "PetStore": map[string]any{"type": "object", "properties": map[string]any{"id": map[string]any{"type": "string"}}}}}},
			map[string]int{"Pet": 2}, true},
		{"old-enum-conflicts: no clash",
			map[string]any{"paths": map[string]any{}, "components": map[string]any{"schemas": map[string]any{
				"Color": map[string]any{"type": "string", "enum": []any{"red", "green"}}, "Size": map[string]any{"type": "integer", "enum": []any{1, 2, 3}}}}},
			map[string]int{"Color": 2, "Size": 3}, true},
		{"component enum and inline query-parameter enum share values",
			map[string]any{"paths": map[string]any{"/pets": map[string]any{"get": map[string]any{"operationId": "listPets",
				"parameters": []any{map[string]any{"name": "sort", "in": "query", "schema": map[string]any{"type": "string", "enum": []any{"asc", "desc"}}}}, "responses": resp}}},
				"components": map[string]any{"schemas": map[string]any{"Order": map[string]any{"type": "string", "enum": []any{"asc", "desc", "none"}},
					"Holder": map[string]any{"type": "object", "properties": map[string]any{"o": map[string]any{"$ref": "#/components/schemas/Order"}}}}}},
			map[string]int{"Order": 3, "ListPetsParamsSort": 2}, false},
		{"inline request-body enum value equal to a component type name",
			map[string]any{"paths": map[string]any{"/things": map[string]any{"post": map[string]any{"operationId": "addThing",
				"requestBody": map[string]any{"content": map[string]any{"application/json": map[string]any{"schema": map[string]any{"type": "object", "properties": map[string]any{
					"kind": map[string]any{"type": "string", "enum": []any{"pet", "toy"}}, "pet": map[string]any{"$ref": "#/components/schemas/Pet"}}}}}}, "responses": resp}}},
				"components": map[string]any{"schemas": map[string]any{"Pet": map[string]any{"type": "object", "properties": map[string]any{"id": map[string]any{"type": "string"}}}}}},
			map[string]int{"AddThingJSONBodyKind": 2}, false},
		{"reusable parameter with an inline enum, referenced by an operation",
			map[string]any{"paths": map[string]any{"/pets": map[string]any{"get": map[string]any{"operationId": "listPets",
				"parameters": []any{map[string]any{"$ref": "#/components/parameters/color"}}, "responses": resp}}},
				"components": map[string]any{"parameters": map[string]any{"color": map[string]any{"name": "color", "in": "query", "schema": map[string]any{"type": "string", "enum": []any{"red", "green"}}}}}},
			map[string]int{"Color": 2, "ListPetsParamsColor": 2}, false},
	}
	for _, ps := range positions {
		ps.doc["openapi"] = "3.0.3"
		ps.doc["info"] = map[string]any{"title": "e", "version": "1"}
		spec, _ := json.Marshal(ps.doc)
		cfg := codegen.Configuration{PackageName: "gen", Generate: codegen.GenerateOptions{Models: true, Client: true}}
		cfg.OutputOptions.SkipPrune = true
		cfg.Compatibility.OldEnumConflicts = ps.old
		replay := map[string]any{"spec": json.RawMessage(spec), "old_enum_conflicts": ps.old}
		r.Count("positions/"+ps.name, true)
		r.Dist["family=cross-enum-positions"]++
		code, err := generate(spec, cfg)
		if err != nil {
			r.Violate("generate_fails_on_enum/positions", ps.name+": "+trunc(err.Error(), 300), replay)
			continue
		}
		p, err := parseGo(code)
		if err != nil {
			r.Violate("output_unparsable", err.Error(), replay)
			continue
		}
		count := map[string]int{}
		perType := map[string]int{}
		for _, dd := range p.file.Decls {
			gd, ok := dd.(*ast.GenDecl)
			if !ok || gd.Tok != token.CONST {
				continue
			}
			for _, sp := range gd.Specs {
				vs := sp.(*ast.ValueSpec)
				id, _ := vs.Type.(*ast.Ident)
				for _, nm := range vs.Names {
					count[nm.Name]++
					if id != nil {
						perType[id.Name]++
					}
				}
			}
		}
		var problems []string
		tn := p.typeNames()
		for nm, c := range count {
			if c > 1 {
				problems = append(problems, fmt.Sprintf("constant %s declared %d times", nm, c))
			}
			if tn[nm] {
				problems = append(problems, fmt.Sprintf("constant %s is also the name of a type", nm))
			}
		}
		for et, want := range ps.enums {
			if perType[et] != want {
				problems = append(problems, fmt.Sprintf("enum %s has %d constants for %d values", et, perType[et], want))
			}
		}
		if len(problems) > 0 {
			sort.Strings(problems)
			r.Violate("enums_in_different_positions_clash", ps.name+": "+strings.Join(problems, "; "), replay)
		}
	}
	cases.WriteTo(r)
}
