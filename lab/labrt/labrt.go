// Package labrt is the runtime of the generated-code laboratory: scenario protocol,
// recording trace, reflection helpers. It is copied into every laboratory module.
package labrt

import (
	"bufio"
	"bytes"
	"context"
	"encoding/json"
	"fmt"
	"io"
	"net/http"
	"net/http/httptest"
	"os"
	"reflect"
	"sort"
	"strings"
	"sync"
)

// Event is one entry of the trace a request leaves behind.
type Event struct {
	Kind string                     `json:"kind"` // mw | strictmw | handler | errhandler
	Name string                     `json:"name"` // operation / middleware index / error type
	Data map[string]json.RawMessage `json:"data,omitempty"`
}

type Trace struct {
	mu     sync.Mutex
	Events []Event
}

func (t *Trace) Add(kind, name string, data map[string]any) {
	ev := Event{Kind: kind, Name: name}
	if data != nil {
		ev.Data = map[string]json.RawMessage{}
		for k, v := range data {
			ev.Data[k] = Encode(v)
		}
	}
	t.mu.Lock()
	t.Events = append(t.Events, ev)
	t.mu.Unlock()
}

// Encode renders a value as JSON; values that cannot be marshalled (readers, funcs) are
// rendered by type name.
func Encode(v any) json.RawMessage {
	b, err := json.Marshal(v)
	if err != nil {
		b, _ = json.Marshal(fmt.Sprintf("<%T: %v>", v, err))
	}
	return b
}

// Options of one mounted server.
type Options struct {
	BaseURL           string          `json:"base_url,omitempty"`
	Middlewares       int             `json:"middlewares,omitempty"`
	ShortCircuit      int             `json:"short_circuit"` // index of the middleware that does not call next, -1 = none
	StrictMw          int             `json:"strict_middlewares,omitempty"`
	StrictShort       int             `json:"strict_short_circuit"`
	ErrorHandler      bool            `json:"error_handler,omitempty"`
	StrictRespType    string          `json:"strict_response_type,omitempty"`
	StrictRespJSON    json.RawMessage `json:"strict_response_json,omitempty"`
	StrictHandlerErr  bool            `json:"strict_handler_error,omitempty"`
	StrictErrWithResp bool            `json:"strict_handler_error_with_response,omitempty"` // the handler returns a response object of the operation AND an error
	StrictForeign     bool            `json:"strict_foreign,omitempty"` // strict middleware 0 lets the handler run and hands back a value that is no response object of the operation
	Entry             string          `json:"entry,omitempty"`               // which generated entry point mounts the server: "" (with options), plain, from_mux, from_mux_base
	MwWrites          int             `json:"mw_writes,omitempty"`           // k > 0: per-operation middleware k-1 sends the response header itself and then passes on (does not short-circuit)
	Warmup            int             `json:"warmup,omitempty"`              // identical requests served on the same handler before the observed one
	StrictWithOptions bool            `json:"strict_with_options,omitempty"` // net/http flavours: NewStrictHandlerWithOptions
}

// Foreign is a value no generated response interface accepts.
type Foreign struct {
	Note string
}

// Package is what every laboratory package registers with the driver.
type Package struct {
	Framework string
	Mount     func(t *Trace, o Options) (http.Handler, error) // nil when the package has no server
	Funcs     map[string]any
	Types     map[string]reflect.Type
}

type RawReq struct {
	Method string              `json:"method"`
	Target string              `json:"target"` // request URI: escaped path and raw query
	Header map[string][]string `json:"header,omitempty"`
	Body   string              `json:"body,omitempty"`
	// the body arrives with chunked transfer encoding: its length is not known up front (ContentLength -1)
	Chunked bool `json:"chunked,omitempty"`
}

type ClientCall struct {
	Fn        string            `json:"fn"`
	Args      []json.RawMessage `json:"args"` // after the server argument
	ThenServe bool              `json:"then_serve"`
	// the request is not taken from the builder New<Op>Request<Suffix> but from what the method <Op><Suffix> of the generated
	// Client hands to its HTTP doer (client made by NewClientWithResponses with two request editors, one more passed to the call)
	ViaMethod bool `json:"via_method,omitempty"`
}

// Doer is what a generated client sends its requests through.
type Doer interface {
	Do(*http.Request) (*http.Response, error)
}

// NewClientFunc is the signature of the LabNewClient function of every laboratory package with a generated client.
type NewClientFunc = func(server string, doer Doer, editors []func(context.Context, *http.Request) error) (any, error)

// MethodCall: a method of the generated ClientWithResponses, end to end against a canned reply.
type MethodCall struct {
	Fn            string            `json:"fn"`   // e.g. GetThingWithResponse
	Args          []json.RawMessage `json:"args"` // after ctx, before the variadic editors
	Server        string            `json:"server"`
	ClientEditors int               `json:"client_editors"`
	CallEditors   int               `json:"call_editors"`
	Status        int               `json:"status"`
	ContentType   string            `json:"content_type"`
	Body          string            `json:"body"`
}

type cannedDoer struct {
	t      *Trace
	wire   *Wire
	status int
	ct     string
	body   string
	calls  int
	req    *http.Request
}

func (d *cannedDoer) Do(req *http.Request) (*http.Response, error) {
	d.calls++
	d.req = req
	var body []byte
	if req.Body != nil {
		body, _ = io.ReadAll(req.Body)
	}
	d.wire = &Wire{Method: req.Method, Path: req.URL.EscapedPath(), RawQuery: req.URL.RawQuery, Header: req.Header.Clone(), Body: string(body)}
	d.t.Add("doer", req.Method, map[string]any{"host": req.URL.Host, "has_context": req.Context() != nil})
	hr := &http.Response{StatusCode: d.status, Status: fmt.Sprintf("%d x", d.status), Header: http.Header{}, Body: io.NopCloser(strings.NewReader(d.body)), ContentLength: int64(len(d.body)), Request: req}
	if d.ct != "" {
		hr.Header.Set("Content-Type", d.ct)
	}
	hr.Header.Set("Content-Length", fmt.Sprint(len(d.body)))
	return hr, nil
}

func labEditors(t *Trace, prefix string, n int) []func(context.Context, *http.Request) error {
	var out []func(context.Context, *http.Request) error
	for i := 0; i < n; i++ {
		name := fmt.Sprintf("%s%d", prefix, i)
		out = append(out, func(ctx context.Context, req *http.Request) error {
			t.Add("editor", name, map[string]any{"seen": req.Header.Values("X-Editor")})
			req.Header.Add("X-Editor", name)
			return nil
		})
	}
	return out
}

// callMethod invokes the named method of recv: ctx, the JSON arguments, then the editors as the variadic tail.
func callMethod(recv reflect.Value, name string, args []json.RawMessage, editors []func(context.Context, *http.Request) error) ([]reflect.Value, error) {
	mv := recv.MethodByName(name)
	if !mv.IsValid() {
		return nil, fmt.Errorf("no such method: %s", name)
	}
	mt := mv.Type()
	if !mt.IsVariadic() || mt.NumIn() != len(args)+2 {
		return nil, fmt.Errorf("method %s takes %d arguments (variadic %v), %d given after ctx", name, mt.NumIn(), mt.IsVariadic(), len(args))
	}
	readerT := reflect.TypeOf((*io.Reader)(nil)).Elem()
	in := []reflect.Value{reflect.ValueOf(context.Background())}
	for i, a := range args {
		pt := mt.In(i + 1)
		if pt == readerT {
			var s string
			if err := json.Unmarshal(a, &s); err != nil {
				return nil, fmt.Errorf("argument %d: %v", i, err)
			}
			in = append(in, reflect.ValueOf(strings.NewReader(s)))
			continue
		}
		v := reflect.New(pt)
		if err := json.Unmarshal(a, v.Interface()); err != nil {
			return nil, fmt.Errorf("argument %d (%s): %v", i, pt, err)
		}
		in = append(in, v.Elem())
	}
	et := mt.In(mt.NumIn() - 1).Elem()
	for _, e := range editors {
		in = append(in, reflect.ValueOf(e).Convert(et))
	}
	return mv.Call(in), nil
}

// exposeResponse: the fields of a generated <Op>Response that are set.
func exposeResponse(v reflect.Value) map[string]json.RawMessage {
	out := map[string]json.RawMessage{}
	for i := 0; i < v.NumField(); i++ {
		f := v.Field(i)
		name := v.Type().Field(i).Name
		switch f.Kind() {
		case reflect.Ptr, reflect.Slice, reflect.Map, reflect.Interface:
			if f.IsNil() {
				continue
			}
		}
		if name == "HTTPResponse" {
			out["HTTPResponse.StatusCode"] = Encode(f.Interface().(*http.Response).StatusCode)
			continue
		}
		if name == "Body" {
			out[name] = Encode(string(f.Bytes()))
			continue
		}
		out[name] = Encode(f.Interface())
	}
	return out
}

type ParseCall struct {
	Fn          string `json:"fn"`
	Status      int    `json:"status"`
	ContentType string `json:"content_type"`
	Body        string `json:"body"`
	// how the reply is framed: "length" (Content-Length = len(body)), "chunked" (length unknown, -1), "head" (the reply to
	// a HEAD request: Content-Length says what a GET would carry, the body is empty); empty = "length"
	Framing string `json:"framing,omitempty"`
	// a later reply parsed by the same function before the first response is inspected: what the caller holds from the
	// first call must not change when the client is used again
	ThenBody string `json:"then_body,omitempty"`
}

type RoundTrip struct {
	Type string          `json:"type"`
	JSON json.RawMessage `json:"json"`
}

type UnionOp struct {
	Method string          `json:"method"`
	Arg    json.RawMessage `json:"arg,omitempty"`
}

type UnionCall struct {
	Type string          `json:"type"`
	Init json.RawMessage `json:"init,omitempty"` // unmarshalled into the union first, if present
	Ops  []UnionOp       `json:"ops"`
}

type Scenario struct {
	ID      string      `json:"id"`
	Pkg     string      `json:"pkg"`
	Opts    Options     `json:"opts"`
	Req     *RawReq     `json:"req,omitempty"`
	Client  *ClientCall `json:"client,omitempty"`
	Parse   *ParseCall  `json:"parse,omitempty"`
	Round   *RoundTrip  `json:"round,omitempty"`
	Union   *UnionCall  `json:"union,omitempty"`
	Call    *MethodCall `json:"call,omitempty"`
	Swagger *struct{}   `json:"swagger,omitempty"` // call GetSwagger(), validate, return the document with references internalised
}

type Wire struct {
	Method   string              `json:"method"`
	Path     string              `json:"path"` // escaped
	RawQuery string              `json:"raw_query"`
	Header   map[string][]string `json:"header"`
	Body     string              `json:"body"`
}

type Result struct {
	ID         string                     `json:"id"`
	Err        string                     `json:"err,omitempty"`
	Wire       *Wire                      `json:"wire,omitempty"`
	Status     int                        `json:"status,omitempty"`
	RespHeader map[string][]string        `json:"resp_header,omitempty"`
	RespBody   string                     `json:"resp_body,omitempty"`
	Trace      []Event                    `json:"trace,omitempty"`
	Parsed     map[string]json.RawMessage `json:"parsed,omitempty"`
	Out        []json.RawMessage          `json:"out,omitempty"`
}

// Main reads scenarios (JSON lines) from stdin and writes results (JSON lines) to stdout.
func Main(pkgs map[string]Package) {
	in := bufio.NewReaderSize(os.Stdin, 1<<20)
	out := bufio.NewWriter(os.Stdout)
	defer out.Flush()
	if len(os.Args) > 1 && os.Args[1] == "list" {
		names := make([]string, 0, len(pkgs))
		for n := range pkgs {
			names = append(names, n)
		}
		sort.Strings(names)
		for _, n := range names {
			fmt.Fprintln(out, n)
		}
		return
	}
	dec := json.NewDecoder(in)
	enc := json.NewEncoder(out)
	for {
		var sc Scenario
		if err := dec.Decode(&sc); err == io.EOF {
			return
		} else if err != nil {
			fmt.Fprintln(os.Stderr, "bad scenario:", err)
			os.Exit(2)
		}
		res := run(pkgs, &sc)
		_ = enc.Encode(res)
	}
}

func run(pkgs map[string]Package, sc *Scenario) (res Result) {
	res.ID = sc.ID
	defer func() {
		if p := recover(); p != nil {
			res.Err = fmt.Sprintf("PANIC: %v", p)
		}
	}()
	p, ok := pkgs[sc.Pkg]
	if !ok {
		res.Err = "no such package: " + sc.Pkg
		return
	}
	switch {
	case sc.Req != nil:
		req := httptest.NewRequest(sc.Req.Method, sc.Req.Target, strings.NewReader(sc.Req.Body))
		for k, vs := range sc.Req.Header {
			for _, v := range vs {
				req.Header.Add(k, v)
			}
		}
		serve(p, sc, req, &res)
	case sc.Client != nil:
		fn, ok := p.Funcs[sc.Client.Fn]
		if !ok {
			res.Err = "no such function: " + sc.Client.Fn
			return
		}
		var hreq *http.Request
		var body []byte
		if sc.Client.ViaMethod {
			mk, ok := p.Funcs["LabNewClient"].(NewClientFunc)
			if !ok {
				res.Err = "package has no generated client"
				return
			}
			t := &Trace{}
			d := &cannedDoer{t: t, status: 204}
			cl, err := mk("http://lab"+sc.Opts.BaseURL, d, labEditors(t, "client", 2))
			if err != nil {
				res.Err = "NewClientWithResponses: " + err.Error()
				return
			}
			ci := reflect.ValueOf(cl).Elem().FieldByName("ClientInterface")
			name := strings.TrimPrefix(sc.Client.Fn, "New")
			if i := strings.LastIndex(name, "Request"); i >= 0 {
				name = name[:i] + name[i+len("Request"):]
			}
			outs, err := callMethod(ci, name, sc.Client.Args, labEditors(t, "call", 1))
			if err != nil {
				res.Err = "call: " + err.Error()
				return
			}
			if e, _ := outs[1].Interface().(error); e != nil {
				res.Err = "builder error: " + e.Error()
				return
			}
			if hr, _ := outs[0].Interface().(*http.Response); hr == nil || hr.StatusCode != 204 || d.calls != 1 {
				res.Err = fmt.Sprintf("client method did not hand back the reply of its single exchange (doer calls %d)", d.calls)
				return
			}
			var names []string
			for _, e := range t.Events {
				names = append(names, e.Kind+":"+e.Name)
			}
			if got := strings.Join(names, " "); got != "editor:client0 editor:client1 editor:call0 doer:"+d.wire.Method {
				res.Err = "client method: request editors and exchange ran as [" + got + "]"
				return
			}
			if got := strings.Join(d.wire.Header["X-Editor"], ","); got != "client0,client1,call0" {
				res.Err = "client method: the request sent does not carry what the editors added: " + got
				return
			}
			delete(d.wire.Header, "X-Editor")
			res.Wire = d.wire
			body = []byte(d.wire.Body)
			hreq = d.req
			hreq.Header.Del("X-Editor")
		} else {
			args := append([]json.RawMessage{Encode("http://lab" + sc.Opts.BaseURL)}, sc.Client.Args...)
			outs, err := Call(fn, args)
			if err != nil {
				res.Err = "call: " + err.Error()
				return
			}
			if e, _ := outs[len(outs)-1].Interface().(error); e != nil {
				res.Err = "builder error: " + e.Error()
				return
			}
			hreq = outs[0].Interface().(*http.Request)
			if hreq.Body != nil {
				body, _ = io.ReadAll(hreq.Body)
			}
			res.Wire = &Wire{Method: hreq.Method, Path: hreq.URL.EscapedPath(), RawQuery: hreq.URL.RawQuery, Header: hreq.Header, Body: string(body)}
		}
		if sc.Client.ThenServe {
			req := httptest.NewRequest(hreq.Method, hreq.URL.RequestURI(), bytes.NewReader(body))
			for k, vs := range hreq.Header {
				for _, v := range vs {
					req.Header.Add(k, v)
				}
			}
			serve(p, sc, req, &res)
		}
	case sc.Call != nil:
		mk, ok := p.Funcs["LabNewClient"].(NewClientFunc)
		if !ok {
			res.Err = "package has no generated client"
			return
		}
		t := &Trace{}
		d := &cannedDoer{t: t, status: sc.Call.Status, ct: sc.Call.ContentType, body: sc.Call.Body}
		cl, err := mk(sc.Call.Server, d, labEditors(t, "client", sc.Call.ClientEditors))
		if err != nil {
			res.Err = "NewClientWithResponses: " + err.Error()
			return
		}
		outs, err := callMethod(reflect.ValueOf(cl), sc.Call.Fn, sc.Call.Args, labEditors(t, "call", sc.Call.CallEditors))
		res.Trace = t.Events
		res.Wire = d.wire
		if err != nil {
			res.Err = "call: " + err.Error()
			return
		}
		if e, _ := outs[1].Interface().(error); e != nil {
			res.Err = "method error: " + e.Error()
			return
		}
		res.Parsed = exposeResponse(outs[0].Elem())
	case sc.Parse != nil:
		fn, ok := p.Funcs[sc.Parse.Fn]
		if !ok {
			res.Err = "no such function: " + sc.Parse.Fn
			return
		}
		hr := &http.Response{StatusCode: sc.Parse.Status, Status: fmt.Sprintf("%d x", sc.Parse.Status), Header: http.Header{}, Body: io.NopCloser(strings.NewReader(sc.Parse.Body))}
		if sc.Parse.ContentType != "" {
			hr.Header.Set("Content-Type", sc.Parse.ContentType)
		}
		hr.ContentLength = int64(len(sc.Parse.Body))
		switch sc.Parse.Framing {
		case "chunked":
			hr.ContentLength = -1
			hr.TransferEncoding = []string{"chunked"}
		case "head":
			hr.Request = &http.Request{Method: http.MethodHead}
			hr.Body = http.NoBody
			hr.Header.Set("Content-Length", fmt.Sprint(len(sc.Parse.Body)))
		}
		if sc.Parse.Framing != "chunked" && sc.Parse.Framing != "head" {
			hr.Header.Set("Content-Length", fmt.Sprint(len(sc.Parse.Body)))
		}
		outs := reflect.ValueOf(fn).Call([]reflect.Value{reflect.ValueOf(hr)})
		if e, _ := outs[1].Interface().(error); e != nil {
			res.Err = "parse error: " + e.Error()
			return
		}
		if sc.Parse.ThenBody != "" {
			hr2 := &http.Response{StatusCode: 599, Status: "599 x", Header: http.Header{"Content-Type": {"text/x-later"}}, Body: io.NopCloser(strings.NewReader(sc.Parse.ThenBody)),
				ContentLength: int64(len(sc.Parse.ThenBody))}
			reflect.ValueOf(fn).Call([]reflect.Value{reflect.ValueOf(hr2)})
		}
		res.Parsed = exposeResponse(outs[0].Elem())
	case sc.Round != nil:
		t, ok := p.Types[sc.Round.Type]
		if !ok {
			res.Err = "no such type: " + sc.Round.Type
			return
		}
		v := reflect.New(t)
		// the caller's buffer is the caller's: after Unmarshal returns it is reused for the next message (a read loop,
		// a json.Decoder); a type that kept a slice of it instead of a copy changes under the caller's feet
		buf := append([]byte(nil), sc.Round.JSON...)
		if err := json.Unmarshal(buf, v.Interface()); err != nil {
			res.Err = "unmarshal: " + err.Error()
			return
		}
		scribble(buf)
		b, err := json.Marshal(v.Interface())
		if err != nil {
			res.Err = "marshal: " + err.Error()
			return
		}
		res.Out = []json.RawMessage{b}
	case sc.Swagger != nil:
		fn, ok := p.Funcs["GetSwagger"]
		if !ok {
			res.Err = "no GetSwagger in package"
			return
		}
		// an earlier caller that changes the document it got (the usual `swagger.Servers = nil` before building a request
		// validator, and here also the title and the path table): the document a LATER call returns must still be the input
		if first := reflect.ValueOf(fn).Call(nil); first[1].IsNil() && first[0].Kind() == reflect.Ptr && !first[0].IsNil() {
			doc := first[0].Elem()
			if f := doc.FieldByName("Servers"); f.IsValid() && f.CanSet() {
				f.Set(reflect.Zero(f.Type()))
			}
			if f := doc.FieldByName("Paths"); f.IsValid() && f.CanSet() {
				f.Set(reflect.Zero(f.Type()))
			}
			if f := doc.FieldByName("Info"); f.IsValid() && f.Kind() == reflect.Ptr && !f.IsNil() {
				if t := f.Elem().FieldByName("Title"); t.IsValid() && t.CanSet() && t.Kind() == reflect.String {
					t.SetString("changed by an earlier caller")
				}
			}
		}
		outs := reflect.ValueOf(fn).Call(nil)
		if !outs[1].IsNil() {
			res.Err = "GetSwagger: " + outs[1].Interface().(error).Error()
			return
		}
		mv := outs[0].MethodByName("Validate")
		if mv.IsValid() {
			// Validate(ctx, opts...) - examples are not validated (kin-openapi overflows its stack on some)
			vo := mv.Call([]reflect.Value{reflect.ValueOf(context.Background())})
			if !vo[0].IsNil() {
				res.Err = "embedded document does not validate: " + vo[0].Interface().(error).Error()
				return
			}
		}
		if iv := outs[0].MethodByName("InternalizeRefs"); iv.IsValid() {
			iv.Call([]reflect.Value{reflect.ValueOf(context.Background()), reflect.Zero(iv.Type().In(1))})
		}
		jb := outs[0].MethodByName("MarshalJSON").Call(nil)
		if !jb[1].IsNil() {
			res.Err = "marshal: " + jb[1].Interface().(error).Error()
			return
		}
		res.Out = []json.RawMessage{jb[0].Bytes()}
	case sc.Union != nil:
		t, ok := p.Types[sc.Union.Type]
		if !ok {
			res.Err = "no such type: " + sc.Union.Type
			return
		}
		u := reflect.New(t)
		if len(sc.Union.Init) > 0 {
			buf := append([]byte(nil), sc.Union.Init...)
			if err := json.Unmarshal(buf, u.Interface()); err != nil {
				res.Err = "init unmarshal: " + err.Error()
				return
			}
			scribble(buf) // the buffer goes back to its owner (see the round scenario)
		}
		for _, op := range sc.Union.Ops {
			if strings.HasPrefix(op.Method, "set:") { // assign a field of the union struct (its own fixed properties)
				f := u.Elem().FieldByName(strings.TrimPrefix(op.Method, "set:"))
				if !f.IsValid() || !f.CanSet() {
					res.Out = append(res.Out, Encode(map[string]string{"error": "no such field " + op.Method}))
					continue
				}
				nv := reflect.New(f.Type())
				if err := json.Unmarshal(op.Arg, nv.Interface()); err != nil {
					res.Out = append(res.Out, Encode(map[string]string{"error": "set: " + err.Error()}))
					continue
				}
				f.Set(nv.Elem())
				res.Out = append(res.Out, Encode(map[string]any{"set": true}))
				continue
			}
			if op.Method == "MarshalJSON" {
				b, err := json.Marshal(u.Interface())
				if err != nil {
					res.Out = append(res.Out, Encode(map[string]string{"error": err.Error()}))
				} else {
					res.Out = append(res.Out, Encode(map[string]any{"value": json.RawMessage(b)}))
				}
				continue
			}
			m := u.MethodByName(op.Method)
			if !m.IsValid() {
				res.Out = append(res.Out, Encode(map[string]string{"error": "no such method " + op.Method}))
				continue
			}
			var args []json.RawMessage
			if len(op.Arg) > 0 {
				args = append(args, op.Arg)
			}
			outs, err := Call(m.Interface(), args)
			if err != nil {
				res.Out = append(res.Out, Encode(map[string]string{"error": "call: " + err.Error()}))
				continue
			}
			o := map[string]any{}
			for i, ov := range outs {
				if e, ok := ov.Interface().(error); ok {
					if e != nil {
						o["error"] = e.Error()
					}
					continue
				}
				if ov.Type().Implements(reflect.TypeOf((*error)(nil)).Elem()) {
					continue
				}
				o[fmt.Sprintf("value%d", i)] = ov.Interface()
				o["type"] = fmt.Sprintf("%T", ov.Interface())
			}
			res.Out = append(res.Out, Encode(o))
		}
	default:
		res.Err = "empty scenario"
	}
	return
}

func serve(p Package, sc *Scenario, req *http.Request, res *Result) {
	if p.Mount == nil {
		res.Err = "package has no server"
		return
	}
	t := &Trace{}
	h, err := p.Mount(t, sc.Opts)
	if err != nil {
		res.Err = "mount: " + err.Error()
		return
	}
	// warm-up: the same request served on the same mounted handler before the observed one (a server must
	// treat its n-th request as its first); the trace and the recorder are those of the last serve only
	var body []byte
	if req.Body != nil {
		body, _ = io.ReadAll(req.Body)
	}
	again := func() *http.Request {
		var rd io.Reader = bytes.NewReader(body)
		chunked := sc.Req != nil && sc.Req.Chunked
		if chunked {
			rd = struct{ io.Reader }{rd} // an opaque reader: NewRequest cannot know the length
		}
		r2 := httptest.NewRequest(req.Method, req.URL.RequestURI(), rd)
		r2.Header = req.Header.Clone()
		if chunked {
			r2.ContentLength = -1
			r2.TransferEncoding = []string{"chunked"}
		}
		return r2
	}
	for i := 0; i < sc.Opts.Warmup; i++ {
		h.ServeHTTP(httptest.NewRecorder(), again())
	}
	t.mu.Lock()
	t.Events = nil
	t.mu.Unlock()
	rec := httptest.NewRecorder()
	h.ServeHTTP(rec, again())
	res.Status = rec.Code
	// the headers as they went on the wire: the recorder's snapshot at WriteHeader / first Write, not the live map
	// (a header set after the status was written never reaches a client)
	res.RespHeader = rec.Result().Header
	res.RespBody = rec.Body.String()
	res.Trace = t.Events
}

// scribble overwrites a buffer the way its owner does when the next message arrives.
func scribble(b []byte) {
	const next = `{"next":"message","n":[1,2,3]} `
	for i := range b {
		b[i] = next[i%len(next)]
	}
}

// Call invokes fn with arguments decoded from JSON according to fn's parameter types.
// io.Reader parameters take a JSON string.
func Call(fn any, args []json.RawMessage) ([]reflect.Value, error) {
	fv := reflect.ValueOf(fn)
	ft := fv.Type()
	n := ft.NumIn()
	if ft.IsVariadic() {
		n--
	}
	if len(args) != n {
		return nil, fmt.Errorf("function takes %d arguments, %d given", n, len(args))
	}
	readerT := reflect.TypeOf((*io.Reader)(nil)).Elem()
	in := make([]reflect.Value, n)
	for i := 0; i < n; i++ {
		pt := ft.In(i)
		if pt == readerT {
			var s string
			if err := json.Unmarshal(args[i], &s); err != nil {
				return nil, fmt.Errorf("argument %d: %v", i, err)
			}
			in[i] = reflect.ValueOf(strings.NewReader(s))
			continue
		}
		v := reflect.New(pt)
		if err := json.Unmarshal(args[i], v.Interface()); err != nil {
			return nil, fmt.Errorf("argument %d (%s): %v", i, pt, err)
		}
		in[i] = v.Elem()
	}
	return fv.Call(in), nil
}

// FromHTTPResponse adapts frameworks that hand back an *http.Response (fiber's app.Test).
type RespFunc func(*http.Request) (*http.Response, error)

func (f RespFunc) ServeHTTP(w http.ResponseWriter, r *http.Request) {
	resp, err := f(r)
	if err != nil {
		http.Error(w, "labrt: "+err.Error(), 599)
		return
	}
	for k, vs := range resp.Header {
		for _, v := range vs {
			w.Header().Add(k, v)
		}
	}
	w.WriteHeader(resp.StatusCode)
	if resp.Body != nil {
		_, _ = io.Copy(w, resp.Body)
	}
}
