package labrt

import (
	"encoding/json"
	"fmt"
	"io"
	"mime/multipart"
	"reflect"
	"strings"
)

var readerType = reflect.TypeOf((*io.Reader)(nil)).Elem()

// Describe renders a strict request object: readers are drained into strings, multipart
// readers into their parts.
func Describe(v any) any {
	rv := reflect.ValueOf(v)
	if rv.Kind() != reflect.Struct {
		return v
	}
	out := map[string]any{}
	for i := 0; i < rv.NumField(); i++ {
		f := rv.Field(i)
		name := rv.Type().Field(i).Name
		switch x := f.Interface().(type) {
		case *multipart.Reader:
			if x == nil {
				continue
			}
			var parts []map[string]string
			for {
				p, err := x.NextPart()
				if err != nil {
					break
				}
				b, _ := io.ReadAll(p)
				parts = append(parts, map[string]string{"name": p.FormName(), "value": string(b)})
			}
			out[name] = map[string]any{"$multipart": parts}
			continue
		case io.Reader:
			if x == nil {
				continue
			}
			b, _ := io.ReadAll(x)
			out[name] = map[string]any{"$reader": string(b)}
			continue
		}
		if (f.Kind() == reflect.Ptr || f.Kind() == reflect.Interface) && f.IsNil() {
			continue
		}
		out[name] = f.Interface()
	}
	return out
}

// BuildValue decodes raw into a new value of type t. Struct fields of type io.Reader take a
// JSON string; func(*multipart.Writer) error types take {"field": "value", ...}.
func BuildValue(t reflect.Type, raw json.RawMessage) (reflect.Value, error) {
	if t.Kind() == reflect.Func {
		var fields map[string]string
		if err := json.Unmarshal(raw, &fields); err != nil {
			return reflect.Value{}, err
		}
		fn := reflect.MakeFunc(t, func(args []reflect.Value) []reflect.Value {
			w := args[0].Interface().(*multipart.Writer)
			var err error
			for k, v := range fields {
				if e := w.WriteField(k, v); e != nil {
					err = e
				}
			}
			ev := reflect.Zero(t.Out(0))
			if err != nil {
				ev = reflect.ValueOf(err)
			}
			return []reflect.Value{ev}
		})
		return fn, nil
	}
	v := reflect.New(t).Elem()
	if t.Kind() == reflect.Struct {
		hasReader := false
		for i := 0; i < t.NumField(); i++ {
			if t.Field(i).Type == readerType {
				hasReader = true
			}
		}
		if hasReader {
			var m map[string]json.RawMessage
			if err := json.Unmarshal(raw, &m); err != nil {
				return v, err
			}
			for i := 0; i < t.NumField(); i++ {
				r, ok := m[t.Field(i).Name]
				if !ok {
					continue
				}
				if t.Field(i).Type == readerType {
					var s string
					if err := json.Unmarshal(r, &s); err != nil {
						return v, err
					}
					v.Field(i).Set(reflect.ValueOf(strings.NewReader(s)))
					continue
				}
				fv, err := BuildValue(t.Field(i).Type, r)
				if err != nil {
					return v, fmt.Errorf("field %s: %w", t.Field(i).Name, err)
				}
				v.Field(i).Set(fv)
			}
			return v, nil
		}
	}
	if t == readerType {
		var s string
		if err := json.Unmarshal(raw, &s); err != nil {
			return v, err
		}
		return reflect.ValueOf(strings.NewReader(s)), nil
	}
	if err := json.Unmarshal(raw, v.Addr().Interface()); err != nil {
		return v, err
	}
	return v, nil
}

// MakeResponse builds the response object a strict stub returns.
func MakeResponse(types map[string]reflect.Type, o Options) (any, error) {
	if o.StrictRespType == "" {
		return nil, nil
	}
	t, ok := types[o.StrictRespType]
	if !ok {
		return nil, fmt.Errorf("lab: no such response type %s", o.StrictRespType)
	}
	raw := o.StrictRespJSON
	if len(raw) == 0 {
		raw = json.RawMessage("null")
	}
	v, err := BuildValue(t, raw)
	if err != nil {
		return nil, fmt.Errorf("lab: building %s: %w", o.StrictRespType, err)
	}
	return v.Interface(), nil
}
