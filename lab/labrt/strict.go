package labrt

import (
	"encoding/json"
	"fmt"
	"io"
	"mime/multipart"
	"reflect"
	"strings"
)

var readerType = reflect.TypeOf((*io.Reader)(nil)).Elem()

// Describe renders a strict request object: readers are drained into strings, multipart
// readers into their parts.
func Describe(v any) any {
	rv := reflect.ValueOf(v)
	if rv.Kind() != reflect.Struct {
		return v
	}
	out := map[string]any{}
	for i := 0; i < rv.NumField(); i++ {
		f := rv.Field(i)
		name := rv.Type().Field(i).Name
		switch x := f.Interface().(type) {
		case *multipart.Reader:
			if x == nil {
				continue
			}
			var parts []map[string]string
			for {
				p, err := x.NextPart()
				if err != nil {
					break
				}
				b, _ := io.ReadAll(p)
				parts = append(parts, map[string]string{"name": p.FormName(), "value": string(b)})
			}
			out[name] = map[string]any{"$multipart": parts}
			continue
		case io.Reader:
			if x == nil {
				continue
			}
			b, _ := io.ReadAll(x)
			out[name] = map[string]any{"$reader": string(b)}
			continue
		}
		if (f.Kind() == reflect.Ptr || f.Kind() == reflect.Interface) && f.IsNil() {
			continue
		}
		out[name] = f.Interface()
	}
	return out
}

// needsSpecial: does a value of this type contain a reader or a function somewhere?
func needsSpecial(t reflect.Type, depth int) bool {
	if depth > 6 {
		return false
	}
	switch {
	case t == readerType, t.Kind() == reflect.Func:
		return true
	case t.Kind() == reflect.Struct:
		for i := 0; i < t.NumField(); i++ {
			if needsSpecial(t.Field(i).Type, depth+1) {
				return true
			}
		}
	}
	return false
}

// BuildValue decodes raw into a new value of type t. io.Reader values take a JSON string;
// func(*multipart.Writer) error values take {"field": "value", ...}; structs containing such
// values are filled field by field (embedded structs share the enclosing object).
func BuildValue(t reflect.Type, raw json.RawMessage) (reflect.Value, error) {
	v := reflect.New(t).Elem()
	switch {
	case t.Kind() == reflect.Func:
		var fields map[string]string
		if err := json.Unmarshal(raw, &fields); err != nil {
			return v, err
		}
		fn := reflect.MakeFunc(t, func(args []reflect.Value) []reflect.Value {
			w := args[0].Interface().(*multipart.Writer)
			var err error
			for k, x := range fields {
				if e := w.WriteField(k, x); e != nil {
					err = e
				}
			}
			ev := reflect.Zero(t.Out(0))
			if err != nil {
				ev = reflect.ValueOf(err)
			}
			return []reflect.Value{ev}
		})
		return fn, nil
	case t == readerType:
		var s string
		if err := json.Unmarshal(raw, &s); err != nil {
			return v, err
		}
		v.Set(reflect.ValueOf(strings.NewReader(s)))
		return v, nil
	case t.Kind() == reflect.Struct && needsSpecial(t, 0):
		var m map[string]json.RawMessage
		if err := json.Unmarshal(raw, &m); err != nil {
			return v, err
		}
		for i := 0; i < t.NumField(); i++ {
			f := t.Field(i)
			r, ok := m[f.Name]
			if !ok && f.Anonymous && f.Type.Kind() == reflect.Struct {
				r, ok = raw, true // promoted fields
			}
			if !ok {
				continue
			}
			fv, err := BuildValue(f.Type, r)
			if err != nil {
				return v, fmt.Errorf("field %s: %w", f.Name, err)
			}
			v.Field(i).Set(fv)
		}
		return v, nil
	}
	if err := json.Unmarshal(raw, v.Addr().Interface()); err != nil {
		return v, err
	}
	fillAdditional(v, raw)
	return v, nil
}

// fillAdditional: a struct with an AdditionalProperties map that has no UnmarshalJSON of its own (a defined type over
// a generated type loses the methods) gets the members that match no json tag put into that map, as a handler would
// do by assigning the field.
func fillAdditional(v reflect.Value, raw json.RawMessage) {
	t := v.Type()
	if t.Kind() != reflect.Struct {
		return
	}
	if _, has := reflect.PointerTo(t).MethodByName("UnmarshalJSON"); has {
		return
	}
	ap, ok := t.FieldByName("AdditionalProperties")
	if !ok || ap.Type.Kind() != reflect.Map || ap.Type.Key().Kind() != reflect.String {
		return
	}
	var m map[string]json.RawMessage
	if json.Unmarshal(raw, &m) != nil {
		return
	}
	known := map[string]bool{}
	for i := 0; i < t.NumField(); i++ {
		tag := strings.Split(t.Field(i).Tag.Get("json"), ",")[0]
		if tag != "" && tag != "-" {
			known[tag] = true
		}
	}
	mv := reflect.MakeMap(ap.Type)
	for k, r := range m {
		if known[k] {
			continue
		}
		ev := reflect.New(ap.Type.Elem())
		if json.Unmarshal(r, ev.Interface()) == nil {
			mv.SetMapIndex(reflect.ValueOf(k), ev.Elem())
		}
	}
	if mv.Len() > 0 {
		v.FieldByName("AdditionalProperties").Set(mv)
	}
}

// MakeResponse builds the response object a strict stub returns.
func MakeResponse(types map[string]reflect.Type, o Options) (any, error) {
	if o.StrictRespType == "" {
		return nil, nil
	}
	t, ok := types[o.StrictRespType]
	if !ok {
		return nil, fmt.Errorf("lab: no such response type %s", o.StrictRespType)
	}
	raw := o.StrictRespJSON
	if len(raw) == 0 {
		raw = json.RawMessage("null")
	}
	v, err := BuildValue(t, raw)
	if err != nil {
		return nil, fmt.Errorf("lab: building %s: %w", o.StrictRespType, err)
	}
	return v.Interface(), nil
}
